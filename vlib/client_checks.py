"""C07, C20 and the client halves of C04/C05 (specs/Client.tla)."""
import json
import os

from .common import *

CLIENT_BUGS_OFF = {"BugReturnSlotsOnContinues": False, "BugOnewayTakesReader": False, "BugBusyAfterWrite": False,
                   "BugIterStopsEarly": False, "BugErrorKindSwap": False}
CLIENT_INVS = ["OneOwner", "ReplyToRequester", "SendOnce", "OnewayConsumesNothing", "ReusableAfterFinal", "IterationShape"]


def client_model(res, threads, objs, maxops, scriptset, tag, emit=False, simulate=None, workers=8, upgrade=False):
    consts = dict(CLIENT_BUGS_OFF, Threads=set(threads), Objs=set(objs), MaxOps=maxops, ScriptSet=scriptset, Emit=emit, WithUpgrade=upgrade)
    cfg = write_cfg(os.path.join(res.wd, "MC_Client_%s.cfg" % tag), constants=consts,
                    invariants=CLIENT_INVS + (["EmitCase"] if emit else []), properties=["BusyWritesNothing"])
    r = run_tlc("MC_Client", cfg, res.wd, workers=1 if simulate else workers, timeout=1800, tag="client-" + tag,
                simulate=simulate, extra=["-depth", "60"] if simulate else [])
    if simulate:
        res.cmds.append(r.cmd)
    else:
        res.add_tlc(r)
    if r.violation:
        res.tlc_violation(r, "MC_Client " + tag)
    return r


def replay_client(res, vh, cases, stage, sub="client"):
    fails, summ, _ = run_vh(vh, [sub], cases, timeout=1800)
    res.add_failures(fails, stage)
    res.traces += summ["executions"]
    res.evaluations += summ["executions"]
    return summ


def hsig(c):
    return " ".join("%s%s(%s)" % (e["op"], ":" + e["mode"] if e["mode"] else "", e["c"]) for e in c["h"])


def client_trace(res, vh, runs, threads, stage):
    from .conn_checks import validate_trace
    tr = os.path.join(res.wd, "ctrace-%s.ndjson" % stage)
    fails, summ, _ = run_vh(vh, ["clienttrace", "--runs=%d" % runs, "--threads=%d" % threads, "--out=" + tr], [])
    objs = set()
    for t in range(1, threads + 1):
        for k in range(1, 7):
            objs.add(t * 10 + k)
    consts = dict(CLIENT_BUGS_OFF, Threads=set(range(1, threads + 1)), Objs=objs)
    cfg = write_cfg(os.path.join(res.wd, "Trace_Client_%s.cfg" % stage), spec="TraceSpec", constants=consts,
                    invariants=["TraceInv"], constraints=["Mark"], postcondition="TraceAccepted", view="TView")
    env = {"TRACE": tr, "JAVA_TOOL_OPTIONS": "-Dtlc2.tool.queue.IStateQueue=StateDeque"}
    r = run_tlc("Trace_Client", cfg, res.wd, workers=1, tag="trace-" + stage, env=env, xmx="6g", timeout=1800)
    res.add_tlc(r)
    txt = open(r.outfile, errors="replace").read()
    if r.violation or "TRACE-REJECTED" in txt:
        ls = txt.splitlines()
        detail = "client trace not linearisable"
        for i, line in enumerate(ls):
            if "TRACE-REJECTED" in line:
                detail = " ".join(x.strip() for x in ls[i:i + 30])[:1500]
                break
        res.violations.append({"detail": detail, "sig": "trace:Trace_Client", "trace": tr, "tlc_output": r.outfile, "stage": stage})
    res.traces += summ["executions"]
    res.evaluations += summ["executions"]
    res.extra["ops_" + stage] = summ.get("ops", 0)


def client_oneway_stage(res, vh, thorough):
    """C04 client half: oneway returns after sending and never consumes a reply."""
    r = client_model(res, [1], [1, 2, 3] if not thorough else [1, 2, 3, 4], 4 if not thorough else 5, "oneway", "oneway", emit=True)
    cases = [c for c in r.replay if any(e["mode"] == "oneway" for e in c["h"])]
    replay_client(res, vh, cases, "client-oneway")
    # against the real server through generated bindings: every interleaving of oneway and normal calls
    real = [c for c in r.replay if all((e["op"] == "send" and e["mode"] in ("oneway", "call") and e["res"][0] == "Ok") or e["op"] == "call"
                                       for e in c["h"]) and any(e["mode"] == "oneway" for e in c["h"])]
    fails, summ, _ = run_vh(vh, ["clientreal"], real, timeout=900)
    res.add_failures(fails, "client-oneway-realserver")
    res.traces += summ["executions"]
    res.evaluations += summ["executions"]
    res.extra["client_oneway_histories"] = len(cases)
    res.extra["client_oneway_realserver_histories"] = len(real)
    res.nontrivial |= {"client:" + hsig(c) for c in cases}


def client_more_stage(res, vh, thorough):
    """C05 client half: iteration yields continues replies in order, then the final one, then ends; connection reusable."""
    r = client_model(res, [1], [1, 2], 4 if not thorough else 5, "streams", "streams", emit=True)
    cases = [c for c in r.replay if any(e["mode"] == "more" for e in c["h"])]
    replay_client(res, vh, cases, "client-more")
    res.extra["client_more_histories"] = len(cases)
    res.nontrivial |= {"client:" + hsig(c) + json.dumps([e["script"] for e in c["h"]]) for c in cases
                       if any(e["op"] == "next" for e in c["h"])}


def check_C07(tier):
    res = Result("C07", tier, "model_checking")
    vh = build_harness()
    thorough = tier == "thorough"
    # (1) every reply object x {call, more}: the outcome table
    r = client_model(res, [1], [1], 2, "replies", "replies", emit=True, upgrade=True)
    replay_client(res, vh, r.replay, "outcomes")
    res.extra["reply_objects"] = 36
    # (2) operation histories, one thread
    r2 = client_model(res, [1], [1, 2, 3], 4, "small", "hist4", emit=True)
    cases = list(r2.replay)
    # the same with upgrade() among the ways to send, one operation shorter (thorough: the same length)
    r2u = client_model(res, [1], [1, 2, 3], 4 if thorough else 3, "small", "hist-upgrade", emit=True, upgrade=True)
    cases += [c for c in r2u.replay if any(w["mode"] == "upgrade" for w in c["wire"])]
    if thorough:
        r3 = client_model(res, [1], [1, 2, 3], 5, "small", "hist5", emit=True)
        cases += r3.replay
        r4 = client_model(res, [1], [1, 2], 3, "finals", "finals3", emit=True)
        cases += r4.replay
    replay_client(res, vh, cases, "histories")
    for c in cases[11::5000][:4]:
        res.sample({"history": [[e["op"], e["mode"], e["c"], e["res"]] for e in c["h"]], "wire": c["wire"]})
    res.nontrivial |= {hsig(c) for c in cases if any(e["res"][0] == "Err" and e["res"][1] in ("ConnectionBusy", "MethodCalledAlready") for e in c["h"])}
    # (3) interleavings of threads sharing the connection: the model ...
    client_model(res, [1, 2], [1, 2, 3, 4], 4, "small", "threads2")
    if thorough:
        client_model(res, [1, 2, 3], [1, 2, 3, 4, 5, 6], 4, "oneway", "threads3")
    # ... and real threads, validated by linearisation search
    client_trace(res, vh, 1500 if thorough else 300, 4, "t4")
    if thorough:
        client_trace(res, vh, 1500, 8, "t8")
    res.rule = ("Client.tla: all histories over {call, more, next, oneway, re-send, call-while-busy} up to 4/5 operations (with upgrade(): 3/4) with scripted reply "
                "streams, every reply object (36) in the outcome table; 2..3 model threads for interleavings; real threads (2..4/8) logged "
                "and linearised against the spec; non-trivial = distinct histories containing a refused (busy / already-called) operation")
    res.exhaustive = True
    res.assumptions = ["the scripted service answers in request order and honours oneway",
                       "real thread schedules are sampled; the linearisation search is exhaustive per recorded run"]
    return res.finish()


def check_C20(tier):
    res = Result("C20", tier, "model_checking")
    vh = build_harness()
    bins = build_repo_bins(["varlink-cli"])
    thorough = tier == "thorough"
    consts = {"BugStopAtFirst": False, "BugExitZeroOnError": False, "BugSplitFirstSlash": False, "BugBufferUntilEnd": False, "MaxK": 6 if thorough else 3, "Emit": True}
    cfg = write_cfg(os.path.join(res.wd, "MC_Cli.cfg"), constants=consts, invariants=["InvExit", "InvOrder", "InvAll", "InvShown", "FormsOk", "EmitCase", "EmitForms"])
    r = run_tlc("MC_Cli", cfg, res.wd, workers=2, tag="cli")
    forms = [c for c in r.replay if "forms" in c]
    r.replay = [c for c in r.replay if "script" in c]
    res.add_tlc(r)
    if r.violation:
        res.tlc_violation(r, "MC_Cli")
    fails, summ, _ = run_vh(vh, ["cli"], r.replay, timeout=2400, env={"VERIF_VARLINK_BIN": os.path.join(bins, "varlink")})
    res.add_failures(fails, "cli-replay")
    res.traces += summ["executions"]
    res.evaluations += summ["executions"]
    # beyond the property's statement: info / help / call x direct / resolver / --activate / --bridge x known / unknown interface
    fails, summ, _ = run_vh(vh, ["cliforms"], forms, timeout=900, env={"VERIF_VARLINK_BIN": os.path.join(bins, "varlink")})
    res.add_failures(fails, "cli-forms")
    res.traces += summ["executions"]
    res.evaluations += summ["executions"]
    res.extra["command_form_cases"] = summ["executions"]
    res.nontrivial = {json.dumps([c["script"], c["more"]]) for c in r.replay if len(c["script"]) >= 1}
    for c in r.replay[5::17][:4]:
        res.sample(c)
    res.rule = ("MC_Cli: every scripted reply stream (k <= 3/6 continues, then result / error with or without parameters / error with continues / "
                "connection closed mid-stream) x {call, --more}; harness multiplies by 4 address forms (unix path with several slashes, "
                "with ;mode, abstract, tcp) x colour on/off and rotates a pool of reply values (i64/u64 extremes, floats, escapes, non-ASCII, "
                "nesting, {}, null, 5 kB string); non-trivial = distinct (script, mode) with >= 1 reply")
    res.exhaustive = True
    res.assumptions = ["a successful reply without a parameters member is printed as {}",
                       "stdout is compared value for value with serde_json semantics after removing ANSI escapes"]
    return res.finish()
