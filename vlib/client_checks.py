"""C07, C20 and the client halves of C04/C05 (specs/Client.tla)."""
from .common import *


def client_oneway_stage(res, vh, thorough):
    pass


def client_more_stage(res, vh, thorough):
    pass
