"""Property id -> check function."""
import json
import os

from . import addr_checks, bridge_checks, cert_checks, client_checks, conn_checks, data_checks, gen_checks, listen_checks
from .common import *

CHECKS = {
    "C01": conn_checks.check_C01,
    "C02": conn_checks.check_C02,
    "C03": conn_checks.check_C03,
    "C04": conn_checks.check_C04,
    "C05": conn_checks.check_C05,
    "C06": conn_checks.check_C06,
    "C07": client_checks.check_C07,
    "C08": gen_checks.check_C08,
    "C09": gen_checks.check_C09,
    "C10": data_checks.check_C10,
    "C11": data_checks.check_C11,
    "C12": data_checks.check_C12,
    "C13": listen_checks.check_C13,
    "C14": listen_checks.check_C14,
    "C15": listen_checks.check_C15,
    "C16": addr_checks.check_C16,
    "C17": data_checks.check_C17,
    "C18": bridge_checks.check_C18,
    "C19": cert_checks.check_C19,
    "C20": client_checks.check_C20,
}


def replay(pid, path):
    """Re-run exactly the failing case recorded in a replay file: the harness sub-command that reported it is run
    again on that single input (or the recorded trace is validated again)."""
    j = json.load(open(path))
    vh = build_harness()
    if j.get("trace") and j.get("tlc_output"):
        print("trace violation: the recorded trace is %s; TLC output of the rejection: %s" % (j["trace"], j["tlc_output"]))
        print("VIOLATION property=%s replay=%s" % (pid, path))
        return 1
    inp = j.get("input")
    args = j.get("vh_args")
    if inp is None or not args:
        print("replay file has no input case; see its detail / tlc_output fields")
        return 2
    env = dict(j.get("vh_env") or {})
    if any(a in ("cli", "cliforms", "bridge", "idlcli") or a.startswith("idlast") for a in args[:1]):
        env.setdefault("VERIF_VARLINK_BIN", os.path.join(build_repo_bins(["varlink-cli"]), "varlink"))
    if args[0] in ("cert", "certtrace"):
        env.setdefault("VERIF_CERT_BIN", os.path.join(build_repo_bins(["varlink-certification"]), "varlink-certification"))
        args = args + ["--no-systematic"]
    fails, summ, _ = run_vh(vh, args, [inp], env=env, hang_is_failure=True, death_is_failure=True)
    for f in fails:
        print("VIOLATION property=%s replay=%s" % (pid, path))
        print("  " + str(f.get("detail", ""))[:600])
    if not fails:
        print("%s replay: the recorded case passes on this tree" % pid)
    return 1 if fails else 0
