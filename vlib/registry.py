"""Property id -> check function."""
import json

from . import addr_checks, bridge_checks, cert_checks, client_checks, conn_checks, data_checks, gen_checks, listen_checks
from .common import *

CHECKS = {
    "C01": conn_checks.check_C01,
    "C02": conn_checks.check_C02,
    "C03": conn_checks.check_C03,
    "C04": conn_checks.check_C04,
    "C05": conn_checks.check_C05,
    "C06": conn_checks.check_C06,
    "C07": client_checks.check_C07,
    "C08": gen_checks.check_C08,
    "C09": gen_checks.check_C09,
    "C10": data_checks.check_C10,
    "C11": data_checks.check_C11,
    "C12": data_checks.check_C12,
    "C13": listen_checks.check_C13,
    "C14": listen_checks.check_C14,
    "C15": listen_checks.check_C15,
    "C16": addr_checks.check_C16,
    "C17": data_checks.check_C17,
    "C18": bridge_checks.check_C18,
    "C19": cert_checks.check_C19,
    "C20": client_checks.check_C20,
}


def replay(pid, path):
    """Re-run exactly the failing case recorded in a replay file."""
    j = json.load(open(path))
    vh = build_harness()
    stage = j.get("stage", "")
    inp = j.get("input")
    if inp is None:
        print("replay file has no input case; see its tlc_output / trace fields")
        return 2
    if "plan" in inp:
        fails, summ, _ = run_vh(vh, ["conn", "--all-splits"], [inp])
    else:
        fails, summ, _ = run_vh(vh, ["connref", "--modes=mem,sock"], [inp])
    for f in fails:
        print("VIOLATION property=%s replay=%s" % (pid, path))
        print("  " + f["detail"][:600])
    return 1 if fails else 0
