"""C01-C06: one server connection (specs/ConnRef.tla, specs/Conn.tla)."""
import json
import os

from .common import *

BUGS_OFF = {"BugOnewayReplies": False, "BugNoContinuesGate": False, "BugFirstDot": False}
CONN_BUGS_OFF = dict(BUGS_OFF, BugNoDotReturn=False, BugDropUpgradeTail=False, BugReplyOnMalformed=False)

CONN_INVS = ["RefinesPrefix", "RefinesFinal", "UpgradeExactlyOnce", "TailIsUnconsumedSuffix", "InOrder",
             "MalformedSilent", "OnewaySilent", "ContinuesOnlyForMore", "NothingAfterEnd"]


def sig_of(reqs):
    out = []
    for r in reqs:
        s = r["k"]
        if r["k"] == "Script":
            s += "[%s]" % " ".join(r["script"])
        for f in ("more", "oneway", "upgrade"):
            if r.get(f):
                s += "+" + f
        out.append(s)
    return ",".join(out)


def connref_cases(res, alphabet, maxlen, tag, workers=8, bugs=None):
    """Enumerate every request sequence over `alphabet` up to `maxlen` with TLC (MC_ConnRef), checking the
    reference semantics' own invariants, and return the REPLAY cases."""
    consts = dict(bugs or BUGS_OFF, MaxLen=maxlen, AlphabetName=alphabet, Emit=True)
    cfg = write_cfg(os.path.join(res.wd, "MC_ConnRef_%s.cfg" % tag), constants=consts,
                    invariants=["RefInOrder", "RefOneFinal", "RefEndSane", "EmitCase"])
    r = run_tlc("MC_ConnRef", cfg, res.wd, workers=workers, tag="connref-" + tag)
    res.add_tlc(r)
    if r.violation:
        res.tlc_violation(r, "MC_ConnRef " + tag)
    return r.replay


def conn_model(res, alphabet, maxlen, modes, body_atoms, tag, emit=False, max_cuts=99, invariants=None,
               workers=8, timeout=1500, bugs=None, expect_violation=False):
    consts = dict(bugs or CONN_BUGS_OFF, BodyAtoms=body_atoms, FillAll=bool(emit), MaxLen=maxlen,
                  AlphabetName=alphabet, Modes="@{" + ", ".join('"%s"' % m for m in modes) + "}",
                  Emit=bool(emit), MaxCuts=max_cuts)
    invs = list(invariants or CONN_INVS)
    if emit:
        invs.append("EmitCase")
    cfg = write_cfg(os.path.join(res.wd, "MC_Conn_%s.cfg" % tag), spec="MCSpec", constants=consts,
                    invariants=invs, view=None if emit else "ViewNoHist", deadlock=True)
    r = run_tlc("MC_Conn", cfg, res.wd, workers=workers, timeout=timeout, tag="conn-" + tag,
                expect_violation=expect_violation)
    if not expect_violation:
        res.add_tlc(r)
        if r.violation:
            res.tlc_violation(r, "MC_Conn " + tag)
    return r


def dedup_conn_cases(cases):
    """Emit prints one line per Finished state; interleavings of peer and server in listen mode reach the same
    observable outcome along different histories — keep one per (reqs, trunc, mode, plan)."""
    seen = {}
    for c in cases:
        k = json.dumps([c["reqs"], c["trunc"], c["mode"], c["plan"]], sort_keys=True)
        if k not in seen:
            seen[k] = c
    return list(seen.values())


def replay_connref(res, vh, cases, modes, stage, threads=8):
    fails, summ, _ = run_vh(vh, ["connref", "--modes=" + ",".join(modes), "--threads=%d" % threads], cases)
    res.traces += summ["executions"]
    res.evaluations += summ["executions"]
    res.add_failures(fails, stage)
    return summ


def replay_conn(res, vh, cases, stage, extra=(), threads=8):
    fails, summ, _ = run_vh(vh, ["conn", "--threads=%d" % threads] + list(extra), cases)
    res.traces += summ["executions"]
    res.evaluations += summ["executions"]
    res.add_failures(fails, stage)
    return summ


def trace_validate_conn(res, vh, n_conns, maxlen, stage, transport="unix"):
    """impl -> spec: random pipelined sequences over a real socket; the recorded (requests, replies, end)
    of every connection must be a behaviour of ConnRef (Trace_Conn.tla consumes the whole trace)."""
    tr = os.path.join(res.wd, "trace-%s.ndjson" % stage)
    fails, summ, _ = run_vh(vh, ["conntrace", "--conns=%d" % n_conns, "--maxlen=%d" % maxlen,
                                 "--out=" + tr, "--transport=" + transport], [])
    res.add_failures(fails, stage)
    validate_trace(res, "Trace_Conn", tr, stage, consts=BUGS_OFF)
    res.traces += summ.get("conns", 0)
    res.evaluations += summ.get("conns", 0)
    return summ


def validate_trace(res, module, trace_file, stage, consts=None):
    cfg = write_cfg(os.path.join(res.wd, "%s_%s.cfg" % (module, stage)), spec="TraceSpec", constants=consts or {},
                    invariants=["TraceInv"], postcondition="TraceAccepted")
    env = {"TRACE": trace_file,
           "JAVA_TOOL_OPTIONS": "-Dtlc2.tool.queue.IStateQueue=StateDeque"}
    r = run_tlc(module, cfg, res.wd, workers=1, tag="trace-" + stage, env=env, xmx="4g")
    res.add_tlc(r)
    txt = open(r.outfile, errors="replace").read()
    if r.violation or "TRACE-REJECTED" in txt or r.exit != 0:
        detail = "trace not accepted by %s" % module
        ls = txt.splitlines()
        for i, line in enumerate(ls):
            if "TRACE-REJECTED" in line:
                detail = " ".join(x.strip() for x in ls[i:i + 12])
                break
        res.violations.append({"detail": detail, "sig": "trace:" + module, "trace": trace_file,
                               "tlc_output": r.outfile, "stage": stage})
    return r


def nontrivial(cases, pred):
    return {sig_of(c["reqs"]) + ("|" + json.dumps(c.get("plan")) if "plan" in c else "") for c in cases if pred(c)}


# ------------------------------------------------------------------------------------------------

def check_C01(tier):
    res = Result("C01", tier, "model_checking")
    vh = build_harness()
    thorough = tier == "thorough"
    # (1) the implementation-shaped machine refines the reference for every sequence and pipelining depth
    r = conn_model(res, "rep", 3 if thorough else 2, ["mem", "listen"], 1, "prop",
                   max_cuts=99 if not thorough else 3)
    # (2) spec -> impl: every sequence over the full alphabet
    cases = connref_cases(res, "full", 2, "full2")
    if thorough:
        cases += connref_cases(res, "rep", 4, "rep4")
    else:
        cases += connref_cases(res, "rep", 3, "rep3")
    replay_connref(res, vh, cases, ["mem", "sock"] + (["tcp"] if thorough else []), "connref-replay")
    for c in cases[1:2000:400]:
        res.sample({"reqs": sig_of(c["reqs"]), "expected_out": c["out"], "end": c["end"]})
    res.nontrivial |= nontrivial(cases, lambda c: len(c["reqs"]) >= 2)
    # (3) machine behaviours (all pipelining depths = all cuts at message boundaries and inside) replayed
    r2 = conn_model(res, "rep", 2, ["mem", "listen"], 1, "emit", emit=True)
    mc = dedup_conn_cases(r2.replay)
    replay_conn(res, vh, mc, "conn-replay")
    res.nontrivial |= nontrivial(mc, lambda c: len(c["reqs"]) >= 2)
    # (4) impl -> spec: long random pipelined sequences over real sockets, validated by Trace_Conn
    trace_validate_conn(res, vh, 400 if thorough else 80, 40 if thorough else 16, "trace")
    if thorough:
        trace_validate_conn(res, vh, 200, 24, "trace-tcp", transport="tcp")
    res.rule = ("TLC enumerates request sequences (MC_ConnRef: full alphabet len<=2, representatives len<=3/4; MC_Conn: "
                "all segmentations, both callers); each is replayed through handle() and a listen() socket; non-trivial = "
                "distinct (sequence[,segmentation]) with >= 2 requests (pipelining can matter)")
    res.exhaustive = True
    res.assumptions = ["request kinds are the alphabet of specs/ConnRef.tla; concretisation in harness/src/conn.rs",
                       "unix sockets deliver queued replies before EOF when the server closes"]
    return res.finish()


def check_C02(tier):
    res = Result("C02", tier, "model_checking")
    vh = build_harness()
    thorough = tier == "thorough"
    invs = ["RefinesPrefix", "RefinesFinal", "UpgradeExactlyOnce", "TailIsUnconsumedSuffix", "NothingAfterEnd"]
    # (1) all partitions of the atom stream (two body atoms per message => cuts inside bodies, before the NUL,
    #     on message boundaries), truncated trailing message, both callers, nondeterministic buffer fills
    conn_model(res, "small", 3 if thorough else 2, ["mem", "listen"], 2, "prop", invariants=invs,
               max_cuts=99 if not thorough else 4, timeout=2400)
    # (2) replay every behaviour: abstract "inside body" cut -> byte offsets
    r2 = conn_model(res, "rep" if thorough else "small", 2, ["mem", "listen"], 2, "emit", emit=True, invariants=invs)
    mc = dedup_conn_cases(r2.replay)
    replay_conn(res, vh, mc, "conn-replay", extra=["--all-splits"] if thorough else [])
    for c in mc[5:3000:700]:
        res.sample({"reqs": sig_of(c["reqs"]), "trunc": c["trunc"], "mode": c["mode"], "plan": c["plan"],
                    "hist": c["hist"], "upRx": c["upRx"]})
    res.nontrivial |= nontrivial(mc, lambda c: len(c["plan"]) >= 2)
    # (3) messages larger than the 8 KiB buffers: same behaviours, padded bodies
    big = [c for c in mc if c["mode"] == "mem" or len(c["plan"]) <= 3][:: (1 if thorough else 7)]
    replay_conn(res, vh, big, "conn-replay-9k", extra=["--pad=9000"])
    if thorough:
        replay_conn(res, vh, big[::5], "conn-replay-70k", extra=["--pad=70000"])
    # (4) byte-level cuts chosen by the harness on spec-enumerated sequences: every single cut, every pair of cuts
    #     (short streams), random k-cuts, one byte at a time, windows around 8192*k for big messages
    cases = connref_cases(res, "rep", 2, "rep2")
    fails, summ, _ = run_vh(vh, ["cuts", "--tier=" + tier], cases, timeout=3000)
    res.add_failures(fails, "byte-cuts")
    res.traces += summ["executions"]
    res.evaluations += summ["executions"]
    res.extra["byte_level_segmentations"] = summ["executions"]
    res.rule = ("MC_Conn enumerates every partition of the atom stream (B,b,Z per message, optional truncated tail) for every "
                "sequence; each replayed on handle() with tail re-feed and over a socket with a drain barrier between writes; "
                "non-trivial = distinct (sequence, partition) with >= 2 chunks")
    res.exhaustive = True
    res.assumptions = ["SIOCOUTQ==0 barrier forces one server-side read per client write on unix sockets",
                       "the harness' re-feed caller also prepends what handle() left unread in the reader it was given"]
    return res.finish()


def check_C04(tier):
    res = Result("C04", tier, "model_checking")
    vh = build_harness()
    thorough = tier == "thorough"
    conn_model(res, "rep", 2, ["mem", "listen"], 1, "prop", invariants=["OnewaySilent", "RefinesPrefix", "RefinesFinal"])
    cases = connref_cases(res, "oneway", 3 if thorough else 2, "oneway")
    cases = [c for c in cases if any(r["oneway"] for r in c["reqs"])]
    replay_connref(res, vh, cases, ["mem", "sock"], "connref-replay")
    res.nontrivial |= nontrivial(cases, lambda c: True)
    for c in cases[3:3000:600]:
        res.sample({"reqs": sig_of(c["reqs"]), "expected_out": c["out"]})
    # client half: interleavings of oneway and normal calls on one real Connection against the real server
    from .client_checks import client_oneway_stage
    client_oneway_stage(res, vh, thorough)
    res.rule = ("every request kind with oneway at every position of every sequence (MC_ConnRef alphabet 'oneway'); non-trivial = "
                "distinct sequences containing >= 1 oneway request; client half: Client.tla histories with oneway calls")
    res.exhaustive = True
    return res.finish()


def check_C05(tier):
    res = Result("C05", tier, "model_checking")
    vh = build_harness()
    thorough = tier == "thorough"
    conn_model(res, "rep", 2, ["mem"], 1, "prop", invariants=["ContinuesOnlyForMore", "RefinesPrefix", "RefinesFinal"])
    # all scripts over {c1,c0,r,R,e} up to length 4 x flags, alone and followed by another request
    cases = connref_cases(res, "scripts", 1, "scripts1")
    if thorough:
        cases += connref_cases(res, "scripts3", 2, "scripts3x2")[::3]
    replay_connref(res, vh, cases, ["mem", "sock"] if thorough else ["mem"], "connref-replay")
    # a sample over sockets in quick mode
    if not thorough:
        replay_connref(res, vh, cases[::5], ["sock"], "connref-replay-sock")
    res.nontrivial |= nontrivial(cases, lambda c: any("c1" in r["script"] for r in c["reqs"]))
    for c in cases[7:4000:900]:
        res.sample({"reqs": sig_of(c["reqs"]), "expected_out": c["out"], "step_results": c["results"]})
    from .client_checks import client_more_stage
    client_more_stage(res, vh, thorough)
    res.rule = ("server: every script over {set_continues(t/f), reply(?), reply(ignore error), reply_error} of length <= 4 x "
                "{more,oneway} (thorough: also every pair of scripts of length <= 3, a third of them replayed); per-step results and bytes compared; non-trivial = scripts that set continues; client: Client.tla "
                "reply streams with k continues")
    res.exhaustive = True
    return res.finish()


def check_C03(tier):
    res = Result("C03", tier, "model_checking")
    vh = build_harness()
    thorough = tier == "thorough"
    consts = {"BugFirstDotR": False, "BugPrefixMatch": False, "MaxIfaces": 4 if thorough else 3, "Emit": True}
    cfg = write_cfg(os.path.join(res.wd, "MC_Route.cfg"), constants=consts,
                    invariants=["InvExact", "InvBuiltin", "InvMonotone", "EmitCase"])
    r = run_tlc("MC_Route", cfg, res.wd, workers=4, tag="route")
    res.add_tlc(r)
    if r.violation:
        res.tlc_violation(r, "MC_Route")
    cases = r.replay
    fails, summ, _ = run_vh(vh, ["route"], cases)
    res.add_failures(fails, "route-replay")
    res.traces += summ["executions"]
    res.evaluations += summ["executions"]
    res.nontrivial = {json.dumps([c["cfg"], c["m"]]) for c in cases if c["cfg"]}
    for c in cases[100::1500]:
        res.sample({"registered": [".".join(n) for n in c["cfg"]], "method": ".".join(c["m"]), "route": c["route"]})
    # the Conn machine's dispatch uses the same table for the standard service (routing kinds of ConnRef)
    rc = connref_cases(res, "full", 1, "full1")
    replay_connref(res, vh, rc, ["mem"], "connref-replay")
    res.rule = ("MC_Route: every configuration of <= 3/4 interfaces from a pool of 8 colliding names x ~100 method strings derived "
                "from the names (registered, prefix, suffix, empty elements, leading/trailing dot, no dot, near-miss of the built-in); "
                "harness multiplies by 5 flag sets x 7 parameter shapes x 2 registration orders; non-trivial = distinct (config, method) "
                "with a non-empty configuration")
    res.exhaustive = True
    res.assumptions = ["an interface registered under the name org.varlink.service itself is a don't-care (shadowed by the built-in)"]
    return res.finish()


def check_C06(tier):
    res = Result("C06", tier, "model_checking")
    vh = build_harness()
    thorough = tier == "thorough"
    # (1) malformed symbols at every position: the machine closes, writes nothing for them, answers the prefix
    conn_model(res, "wide" if thorough else "rep", 2, ["mem", "listen"], 1, "prop",
               invariants=["MalformedSilent", "RefinesPrefix", "RefinesFinal", "NothingAfterEnd"])
    # (2) every sequence over {6 malformed classes, representatives of the well-formed classes}
    cases = connref_cases(res, "malformed", 3 if thorough else 2, "malformed")
    with_m = [c for c in cases if any(r["k"] in ("BadJson", "BadUtf8", "WrongMemberType", "EmptyMsg", "NotObject", "NoMethod")
                                      for r in c["reqs"])]
    replay_connref(res, vh, cases, ["mem", "sock"] + (["tcp"] if thorough else []), "connref-replay")
    res.nontrivial |= nontrivial(with_m, lambda c: True)
    # (3) concretisation: systematic corruption operators, classified by the independent recogniser
    fails, summ, _ = run_vh(vh, ["malformed", "--tier=" + tier], with_m, timeout=3000,
                            env={"VERIF_CLASSIFY": os.path.join(VERIF, "bin", "classify.py")})
    res.add_failures(fails, "corruption")
    res.traces += summ["executions"]
    res.evaluations += summ["executions"]
    res.extra["mutants"] = summ["cases"]
    res.extra["mutants_strict_malformed"] = summ["strict"]
    res.extra["mutants_still_wellformed_or_uncertain"] = summ["relaxed"]
    res.nontrivial_count = len(res.nontrivial) + summ["strict"]
    for c in with_m[3::40][:4]:
        res.sample({"reqs": sig_of(c["reqs"]), "expected_out": c["out"], "end": c["end"], "at": c["at"]})
    # (4) a healthy connection beside faulty ones on the same listen() server
    from .listen_checks import neighbours_stage
    neighbours_stage(res, vh, thorough, faulty=True)
    res.rule = ("TLC: malformed classes as alphabet symbols at every position of sequences <= 2/3; harness: per valid corpus request every "
                "truncation, per-byte flip/delete/duplicate/insert(NUL,0xFF,quote,...), JSON value retyping/removal, nesting 1..10^4, empty, "
                "1 MiB, random bytes, placed at the malformed position of the TLC contexts; non-trivial = distinct sequences with a malformed "
                "symbol + mutants the independent recogniser classifies as certainly malformed (strict oracle)")
    res.exhaustive = True
    res.assumptions = ["bin/classify.py (Python json, RFC 8259) is the arbiter of well-formedness; mutants it cannot judge with certainty "
                       "(\\u escapes, exponents, >100 nesting, top-level arrays, still well-formed requests) get the relaxed oracle",
                       "valid JSON nested deeper than the decoder's limit may be answered or rejected-and-closed (both are containment)"]
    return res.finish()
