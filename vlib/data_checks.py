"""C17 (specs/Wire.tla) and the IDL family C10 C11 C12 (specs/Idl.tla)."""
import json
import os

from .common import *


def check_C17(tier):
    res = Result("C17", tier, "model_checking")
    vh = build_harness()
    thorough = tier == "thorough"
    cases = []
    for which in ("request", "reqobj", "reply", "set", "map", "info", "descr"):
        consts = {"Which": which, "MaxKeys": 5 if thorough else 3, "Emit": True}
        cfg = write_cfg(os.path.join(res.wd, "MC_Wire_%s.cfg" % which), constants=consts, invariants=["Laws", "EmitCase"])
        r = run_tlc("MC_Wire", cfg, res.wd, workers=2, tag="wire-" + which)
        res.add_tlc(r)
        if r.violation:
            res.tlc_violation(r, "MC_Wire " + which)
        cases += r.replay
        if r.replay:
            res.sample(r.replay[len(r.replay) // 2])
    fails, summ, _ = run_vh(vh, ["wire"], cases)
    res.add_failures(fails, "wire-replay")
    res.traces += summ["executions"]
    res.evaluations += summ["executions"]
    res.nontrivial = {json.dumps(c, sort_keys=True) for c in cases}
    res.rule = ("Wire.tla value universes enumerated completely: Request (3^3 flags x 4 methods x 7 parameter shapes), request objects with "
                "absent/null/valued optional members, Reply, string sets and maps over a pool of 7 keys (empty, non-ASCII, quote, backslash, "
                "control, long) up to 3/5 keys, ServiceInfo, GetInterfaceDescriptionReply; each through to_string/to_vec/to_value and "
                "from_str/from_slice/from_value; non-trivial = distinct enumerated values")
    res.exhaustive = True
    res.assumptions = ["a data-shape specification (no transition system): TLC enumerates and checks the abstract round-trip laws, the harness "
                       "binds them to the real Serialize/Deserialize code"]
    return res.finish()


IDL_BUGS_OFF = {"BugTrailingHyphenFirst": False, "BugNoDupCheckAcrossKinds": False}


def idl_names(res, maxlen, tag="names"):
    cfg = write_cfg(os.path.join(res.wd, "MC_IdlNames.cfg"), constants=dict(IDL_BUGS_OFF, MaxLen=maxlen, Emit=True),
                    invariants=["AcceptSane", "EmitCase"])
    r = run_tlc("MC_IdlNames", cfg, res.wd, workers=8, tag="idl-" + tag, timeout=1800)
    res.add_tlc(r)
    if r.violation:
        res.tlc_violation(r, "MC_IdlNames")
    return r.replay


def idl_words(res, maxlen):
    cfg = write_cfg(os.path.join(res.wd, "MC_IdlWords.cfg"), constants=dict(IDL_BUGS_OFF, MaxLen=maxlen, Emit=True),
                    invariants=["WordSane", "EmitCase"])
    r = run_tlc("MC_IdlWords", cfg, res.wd, workers=8, tag="idl-words", timeout=1800)
    res.add_tlc(r)
    if r.violation:
        res.tlc_violation(r, "MC_IdlWords")
    return r.replay


def idl_tokens(res, baseset="full", tag="tokens"):
    cfg = write_cfg(os.path.join(res.wd, "MC_IdlTokens_%s.cfg" % tag), constants=dict(IDL_BUGS_OFF, Emit=True, BaseSet=baseset),
                    invariants=["BasesAccepted", "EmitCase"])
    r = run_tlc("MC_IdlTokens", cfg, res.wd, workers=8, tag="idl-" + tag, timeout=1800)
    res.add_tlc(r)
    if r.violation:
        res.tlc_violation(r, "MC_IdlTokens")
    return r.replay


def idl_asts(res, mode, depth, maxmembers, tag=None):
    tag = tag or mode
    cfg = write_cfg(os.path.join(res.wd, "MC_IdlAst_%s.cfg" % tag),
                    constants=dict(IDL_BUGS_OFF, Mode=mode, TypeDepth=depth, MaxMembers=maxmembers, Emit=True),
                    invariants=["TypesAllOk", "EmitCase"])
    r = run_tlc("MC_IdlAst", cfg, res.wd, workers=8, tag="idl-ast-" + tag, timeout=1800)
    res.add_tlc(r)
    if r.violation:
        res.tlc_violation(r, "MC_IdlAst " + tag)
    return r.replay


def check_C11(tier):
    res = Result("C11", tier, "model_checking")
    vh = build_harness()
    thorough = tier == "thorough"
    # (1) interface names: all strings over the character classes
    names = idl_names(res, 8 if thorough else 6)
    fails, summ, _ = run_vh_parallel(vh, ["idlnames"], names)
    res.add_failures(fails, "names")
    res.traces += summ["executions"]
    res.evaluations += summ["executions"]
    res.extra["names"] = len(names)
    res.extra["names_dontcare"] = summ.get("dontcare", 0)
    # (1b) field names / enum elements / member names: all strings over their character classes, in every position
    words = idl_words(res, 6 if thorough else 5)
    fails, summ, _ = run_vh_parallel(vh, ["idlwords"], words)
    res.add_failures(fails, "words")
    res.traces += summ["executions"]
    res.evaluations += summ["executions"]
    res.extra["words"] = len(words)
    # (2) token strings with an error budget of one
    toks = idl_tokens(res)
    fails, summ, _ = run_vh_parallel(vh, ["idltok", "--tier=" + tier], toks)
    res.add_failures(fails, "tokens")
    res.traces += summ["executions"]
    res.evaluations += summ["executions"]
    res.extra["token_strings"] = len(toks)
    res.extra["token_strings_accepted"] = len([t for t in toks if t["accept"]])
    # (3) duplicates and (4) mirror
    asts = idl_asts(res, "dups", 1, 3) + idl_asts(res, "types", 3 if thorough else 2, 3) + idl_asts(res, "shapes", 1, 3 if not thorough else 4) \
        + idl_asts(res, "stacked", 1, 3) + idl_asts(res, "recursive", 1, 3)
    fails, summ, _ = run_vh_parallel(vh, ["idlast", "--tier=" + tier], asts)
    res.add_failures(fails, "mirror")
    res.traces += summ["executions"]
    res.evaluations += summ["executions"]
    res.nontrivial_count = len(toks) + len([n for n in names if n["v"] == "accept"]) + len(asts)
    res.sample({"name_classes": "".join(names[777]["s"]), "verdict": names[777]["v"]})
    res.sample(toks[len(toks) // 3])
    res.sample({"ast_members": [[m["k"], m["n"]] for m in asts[5]["ast"]["members"]], "dups": asts[5]["dups"]})
    res.rule = ("Idl.tla: (1) every string over 6 character classes up to length 6/8 judged by the name rules; (2) 7 base sentences x "
                "{every prefix, token deletion, insertion of each of 22 tokens, substitution, adjacent swap} judged by the recursive "
                "recogniser, rendered with 6/28 trivia styles (blanks, CRLF / CR / U+2028, comment lines); (3) all 2..3-member "
                "sequences over {method,type,error} x 2 names for duplicates; (4) ASTs (type pool depth 2/3 in every position, member "
                "sequences with doc tags) for the mirror; non-trivial = token strings + accepted names + ASTs")
    res.exhaustive = True
    res.assumptions = ["don't-care (not generated): upper-case inside the first name element, blanks before a comma, a comment on the same line "
                       "after blanks, trivia inside [] / [string], comment without final line break at end of input"]
    return res.finish()


def check_C12(tier):
    res = Result("C12", tier, "exploration")
    vh = build_harness()
    thorough = tier == "thorough"
    # model-directed inputs (with accept/reject oracle): prefixes and one-error strings in every line-ending convention
    toks = idl_tokens(res)
    fails, summ, _ = run_vh_parallel(vh, ["idltok", "--tier=thorough"], toks)
    res.add_failures(fails, "tokens-all-styles")
    res.evaluations += summ["executions"]
    names = idl_names(res, 5)
    fails, summ, _ = run_vh_parallel(vh, ["idlnames"], names)
    res.add_failures(fails, "names")
    res.evaluations += summ["executions"]
    # totality: random Unicode, byte-level mutations of valid definitions, every prefix, nesting up to 200, junk in comments
    asts = idl_asts(res, "types", 2, 3)[::3]
    fails, summ, _ = run_vh_parallel(vh, ["idlfuzz", "--tier=" + tier], asts, timeout=3000)
    res.add_failures(fails, "fuzz")
    res.evaluations += summ["executions"]
    res.extra["fuzz_inputs"] = summ["executions"]
    res.extra["fuzz_rejected_with_diagnostic"] = summ.get("rejected", 0)
    res.nontrivial_count = summ.get("distinct", 0) + len(toks)
    res.traces = 0
    res.sample({"tokens": toks[100]["toks"], "accept": toks[100]["accept"]})
    res.rule = ("inputs come from the model (every prefix and every one-token error of the base sentences in 28 trivia / line-ending styles; "
                "name strings) and from operators on model-generated valid definitions (every character prefix, byte mutations, random Unicode "
                "of all planes placed inside comments and anywhere, nesting depth 1..200, CR / CRLF / U+2028 / U+2029 line ends); oracle: no "
                "panic, termination within a watchdog, reported line is a line of the input, column within it, Display works; non-trivial = "
                "distinct inputs")
    res.assumptions = ["the totality verdict needs no model; the model supplies structured inputs and the accept/reject oracle where it has one"]
    return res.finish()


def check_C10(tier):
    res = Result("C10", tier, "model_checking")
    vh = build_harness()
    bins = build_repo_bins(["varlink-cli"])
    thorough = tier == "thorough"
    asts = idl_asts(res, "types", 3 if thorough else 2, 3) + idl_asts(res, "shapes", 1, 3 if not thorough else 4)
    if not thorough:
        asts = asts[:165] + asts[165::4]
    # qualifiers stacked in front of anonymous structs / enums (every pair, triples): always all of them
    asts += idl_asts(res, "stacked", 1, 3) + idl_asts(res, "recursive", 1, 3)
    fails, summ, _ = run_vh_parallel(vh, ["idlast", "--format", "--tier=" + tier], asts, n=12, timeout=3000,
                                     env={"VERIF_VARLINK_BIN": os.path.join(bins, "varlink")})
    res.add_failures(fails, "format")
    res.traces += summ["executions"]
    res.evaluations += summ["executions"]
    # the command-line tool on a sample
    fails, summ, _ = run_vh_parallel(vh, ["idlcli"], asts[::(7 if thorough else 40)], n=8, timeout=3000,
                                     env={"VERIF_VARLINK_BIN": os.path.join(bins, "varlink")})
    res.add_failures(fails, "format-cli")
    res.traces += summ["executions"]
    res.evaluations += summ["executions"]
    res.nontrivial = {json.dumps(a["ast"], sort_keys=True) for a in asts}
    res.sample({"members": [[m["k"], m["n"], m["doc"]] for m in asts[200 % len(asts)]["ast"]["members"]]})
    res.rule = ("ASTs enumerated by MC_IdlAst (type pool to depth 2/3 in every parameter position; all member-template sequences up to 3/4 with "
                "doc tags none/one line/several lines/CRLF/tab continuation/U+2028), rendered with trivia styles; for each, all widths 0..200, "
                "1000 and usize::MAX/2: parse(format) projects to the spec AST, format(parse(format)) is byte-identical, coloured output "
                "minus escapes equals plain, Display = width 80; `varlink format -c w` on a sample; non-trivial = distinct ASTs")
    res.exhaustive = True
    res.assumptions = ["member order is the per-kind order the parser exposes (typedefs, methods, errors)"]
    return res.finish()
