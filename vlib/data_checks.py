"""C17 (specs/Wire.tla) and the IDL family C10 C11 C12 (specs/Idl.tla)."""
import json
import os

from .common import *


def check_C17(tier):
    res = Result("C17", tier, "model_checking")
    vh = build_harness()
    thorough = tier == "thorough"
    cases = []
    for which in ("request", "reqobj", "reply", "set", "map", "info", "descr"):
        consts = {"Which": which, "MaxKeys": 5 if thorough else 3, "Emit": True}
        cfg = write_cfg(os.path.join(res.wd, "MC_Wire_%s.cfg" % which), constants=consts, invariants=["Laws", "EmitCase"])
        r = run_tlc("MC_Wire", cfg, res.wd, workers=2, tag="wire-" + which)
        res.add_tlc(r)
        if r.violation:
            res.tlc_violation(r, "MC_Wire " + which)
        cases += r.replay
        if r.replay:
            res.sample(r.replay[len(r.replay) // 2])
    fails, summ, _ = run_vh(vh, ["wire"], cases)
    res.add_failures(fails, "wire-replay")
    res.traces += summ["executions"]
    res.evaluations += summ["executions"]
    res.nontrivial = {json.dumps(c, sort_keys=True) for c in cases}
    res.rule = ("Wire.tla value universes enumerated completely: Request (3^3 flags x 4 methods x 7 parameter shapes), request objects with "
                "absent/null/valued optional members, Reply, string sets and maps over a pool of 7 keys (empty, non-ASCII, quote, backslash, "
                "control, long) up to 3/5 keys, ServiceInfo, GetInterfaceDescriptionReply; each through to_string/to_vec/to_value and "
                "from_str/from_slice/from_value; non-trivial = distinct enumerated values")
    res.exhaustive = True
    res.assumptions = ["a data-shape specification (no transition system): TLC enumerates and checks the abstract round-trip laws, the harness "
                       "binds them to the real Serialize/Deserialize code"]
    return res.finish()
