"""C18 (specs/Bridge.tla)."""
import json
import os

from .common import *

BRIDGE_BUGS_OFF = {"BugGetInfoHardcoded": False, "BugReadAheadToClient": False, "BugDropReplyOnClose": False,
                   "BugPanicNoChild": False, "BugAbortAfterUpgrade": False, "BugStaleCacheAfterInfo": False, "BugIgnoreServiceHangup": False, "BugDropServiceReadAhead": False}
BRIDGE_INVS = ["Transparent", "PrefixWhenAbandoned", "SwitchesTargets", "UpgradePayloadToService", "StopsWhenServiceEnds", "GoodbyeForwarded", "GreetingForwarded", "ExitZero"]


def check_C18(tier):
    res = Result("C18", tier, "model_checking")
    vh = build_harness()
    bins = build_repo_bins(["varlink-cli"])
    env = {"VERIF_VARLINK_BIN": os.path.join(bins, "varlink")}
    thorough = tier == "thorough"
    cfg = write_cfg(os.path.join(res.wd, "MC_Bridge.cfg"), spec="MCSpec", constants=dict(BRIDGE_BUGS_OFF, MaxLen=3, Emit=True),
                    invariants=BRIDGE_INVS + ["EmitCase"], deadlock=True)
    r = run_tlc("MC_Bridge", cfg, res.wd, workers=4, tag="bridge", timeout=1800)
    res.add_tlc(r)
    if r.violation:
        res.tlc_violation(r, "MC_Bridge")
    # the model's behaviours of a client that leaves early end anywhere; the replay drives those from the complete conversations
    cases = [c for c in r.replay if not c["abandon"]]
    resolver = [c for c in cases if c["mode"] == "resolver"]
    direct = [c for c in cases if c["mode"] == "direct"]
    # sequences that come BACK to a target after visiting another one (the cached address must follow): all of them; of the other
    # length-3 sequences a third (thorough) / none (quick)
    def revisits(c):
        q = c["reqs"]
        return len(q) == 3 and q[0]["svc"] == q[2]["svc"] != q[1]["svc"]
    short = [c for c in resolver if len(c["reqs"]) <= 2]
    back = [c for c in resolver if revisits(c)]
    rest = [c for c in resolver if len(c["reqs"]) == 3 and not revisits(c)]
    resolver = short + (back + rest[::3] if thorough else back[::5])
    direct = [c for c in direct if len(c["reqs"]) <= 2] + ([c for c in direct if len(c["reqs"]) == 3][::3] if thorough else [])
    fails, summ, _ = run_vh_parallel(vh, ["bridge"], resolver, n=6, timeout=2400, env=env)
    res.add_failures(fails, "resolver-mode")
    res.traces += summ["executions"]
    res.evaluations += summ["executions"]
    for sub in ("connect", "activate", "bridge"):
        fails, summ, _ = run_vh_parallel(vh, ["bridge", "--direct=" + sub], direct if sub == "connect" or thorough else direct[::2], n=4, timeout=2400, env=env)
        res.add_failures(fails, "direct-" + sub)
        res.traces += summ["executions"]
        res.evaluations += summ["executions"]
    # termination clause: the client closes its side right after its last request
    gone = [c for c in resolver if c["payload"] == 0 and c["pipelined"] and c["reqs"] and c["reqs"][-1]["k"] != "upgrade"]
    fails, summ, _ = run_vh_parallel(vh, ["bridge", "--abandon"], gone if thorough else gone[::2], n=6, timeout=2400, env=env)
    res.add_failures(fails, "resolver-client-gone")
    res.traces += summ["executions"]
    res.evaluations += summ["executions"]
    # ... or stops reading first and closes its writing end later: the bridge finds out when it forwards the late reply
    fails, summ, _ = run_vh_parallel(vh, ["bridge", "--abandon-readend"], gone[1::2] if not thorough else gone, n=6, timeout=2400, env=env)
    res.add_failures(fails, "resolver-client-stops-reading")
    res.traces += summ["executions"]
    res.evaluations += summ["executions"]
    goned = [c for c in direct if c["payload"] == 0 and c["pipelined"] and c["reqs"] and c["reqs"][-1]["k"] != "upgrade"]
    fails, summ, _ = run_vh_parallel(vh, ["bridge", "--direct=connect", "--abandon"], goned, n=4, timeout=2400, env=env)
    res.add_failures(fails, "direct-client-gone")
    res.traces += summ["executions"]
    res.evaluations += summ["executions"]
    fails, summ, _ = run_vh_parallel(vh, ["bridge", "--direct=connect", "--abandon-readend"], goned if thorough else goned[::2], n=4, timeout=2400, env=env)
    res.add_failures(fails, "direct-client-stops-reading")
    res.traces += summ["executions"]
    res.evaluations += summ["executions"]
    # the client leaves while the bridge is blocked forwarding a reply larger than the pipe
    fails, summ, _ = run_vh(vh, ["bridge", "--burst"], [], timeout=900, env=env)
    res.add_failures(fails, "client-leaves-mid-reply")
    res.traces += summ["executions"]
    res.evaluations += summ["executions"]
    # byte sizes around the bridge's copy buffer for what an upgraded service says first (refines `greet`)
    fails, summ, _ = run_vh(vh, ["bridge", "--rawsweep"], [], timeout=900, env=env)
    res.add_failures(fails, "raw-sizes")
    res.traces += summ["executions"]
    res.evaluations += summ["executions"]
    res.nontrivial = {json.dumps([c["mode"], c["reqs"], c["payload"], c["pipelined"]]) for c in cases if len(c["reqs"]) >= 1}
    for c in resolver[40:400:120]:
        res.sample({"mode": c["mode"], "requests": ["%s->%s" % (q["k"], q["svc"]) for q in c["reqs"]], "pipelined": c["pipelined"], "payload": c["payload"], "exit": c["exit"]})
    res.rule = ("MC_Bridge: request sequences (<= 3; quick replays all of length <= 2 and a fifth of those of length 3 that return to a target after "
                "visiting another one, thorough all of those and a third of the rest) over {plain, more, oneway, error reply, request after which the service hangs up, service-info "
                "query, upgrade at the end} x two services hosting different interfaces (targets switch) x client behaviour (pipelined / one at a "
                "time / gone right after the last request: the bridge stops, reports success, has forwarded a prefix) x upgraded payload (none / two lines, in the same write when pipelined) x who ends the upgraded session (client closes / "
                "service says goodbye and hangs up while the client stays) x mode {resolver lookup, --connect, --activate, "
                "--bridge}; real `varlink bridge` process between pipes and real services; compared: client-visible reply sequence, payload at "
                "the service, exit status; non-trivial = distinct non-empty cases")
    res.exhaustive = True
    res.assumptions = ["'the same reply sequence as talking to the service directly': in resolver mode each request travels on a fresh service "
                       "connection, so a request after which the service hangs up does not end the client's session",
                       "the client keeps its side open until the last expected reply (closing right after the last request is only used for the "
                       "termination clause)"]
    return res.finish()
