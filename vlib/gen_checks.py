"""C08, C09: the code generator (specs/Idl.tla ASTs as programs, specs/Wire.tla shapes as value oracle)."""
import json
import os
import re
import shutil
import subprocess

from .common import *
from .data_checks import idl_asts, idl_tokens, IDL_BUGS_OFF

GEN_TARGET = os.path.join(HARNESS, "target", "gencrates")


def type_text(t):
    c = t["c"]
    if c == "ref":
        return t["n"]
    if c == "arr":
        return "[]" + type_text(t["e"])
    if c == "dict":
        return "[string]" + type_text(t["e"])
    if c == "opt":
        return "?" + type_text(t["e"])
    if c == "struct":
        return "(" + ", ".join("%s: %s" % (f["n"], type_text(f["t"])) for f in t["f"]) + ")"
    if c == "enum":
        return "(" + ", ".join(t["v"]) + ")"
    return c


def member_name(m, i, mode):
    return "%s%d" % (m["n"], i + 1) if mode == "shapes" else m["n"]


def render(case, iface_name=None):
    ast, mode = case["ast"], case["mode"]
    out = ["interface %s" % (iface_name or ".".join(ast["name"])), ""]
    for i, m in enumerate(ast["members"]):
        n = member_name(m, i, mode)
        if m["doc"] != "none":
            out.append("# doc of %s" % n)
        if m["k"] == "type":
            out.append("type %s %s" % (n, type_text(m["a"])))
        elif m["k"] == "error":
            out.append("error %s %s" % (n, type_text(m["a"])))
        else:
            out.append("method %s%s -> %s" % (n, type_text(m["a"]), type_text(m["b"])))
        out.append("")
    return "\n".join(out)


def contains_anon(t):
    c = t["c"]
    if c in ("struct", "enum"):
        return True
    if c in ("arr", "dict", "opt"):
        return contains_anon(t["e"])
    return False


def error_param_has_anon(case):
    """F5: an error whose parameter types contain an anonymous struct / enum"""
    for m in case["ast"]["members"]:
        if m["k"] == "error":
            for f in m["a"]["f"]:
                if contains_anon(f["t"]):
                    # `[string]()` (string set) is not an anonymous type in the generated code
                    t = f["t"]
                    while t["c"] in ("arr", "opt"):
                        t = t["e"]
                    if t["c"] == "dict" and t["e"]["c"] == "struct" and not t["e"]["f"]:
                        continue
                    return True
    return False


def names_used(case):
    s = set()

    def walk(t):
        if t["c"] == "struct":
            for f in t["f"]:
                s.add(f["n"])
                walk(f["t"])
        elif t["c"] == "enum":
            s.update(t["v"])
        elif t["c"] in ("arr", "dict", "opt"):
            walk(t["e"])

    for m in case["ast"]["members"]:
        s.add(m["n"])
        walk(m["a"])
        if m["k"] == "method":
            walk(m["b"])
    return s


SPECIAL = {"self", "Self", "super", "crate", "call", "CallUpgraded", "Type", "Error", "ErrorKind", "Result", "Option", "String", "Vec", "Box",
           "VarlinkClient", "VarlinkInterface", "Call", "Reply", "New", "GetInfo", "writer", "request"}


def special_names(case):
    """special names with the position they are used in, e.g. Self@error, type@field"""
    out = set()

    def walk(t):
        if t["c"] == "struct":
            for f in t["f"]:
                if f["n"] in SPECIAL:
                    out.add(f["n"] + "@field")
                walk(f["t"])
        elif t["c"] == "enum":
            for v in t["v"]:
                if v in SPECIAL:
                    out.add(v + "@enum")
        elif t["c"] in ("arr", "dict", "opt"):
            walk(t["e"])

    for m in case["ast"]["members"]:
        if m["n"] in SPECIAL:
            out.add(m["n"] + "@" + m["k"])
        walk(m["a"])
        if m["k"] == "method":
            walk(m["b"])
    return sorted(out)


def run_generator(res, vh, items, outdir):
    """items: [{"name", "text"}] -> {name: fronts}"""
    os.makedirs(outdir, exist_ok=True)
    fails, summ, other = run_vh(vh, ["gen", "--out=" + outdir], items, timeout=1800)
    res.evaluations += summ["executions"]
    return {o["name"]: o["fronts"] for o in other if o.get("obs")}


CRATE_TOML = """[package]
name = "%(name)s"
version = "0.0.0"
edition = "2018"

[lib]
path = "src/lib.rs"

[dependencies]
varlink = { path = "%(repo)s/varlink" }
serde = "1.0.102"
serde_derive = "1.0.102"
serde_json = "1.0.41"
%(extra)s
"""


def build_crates(res, wsdir, modules, codedir, ncrates=8, macro_items=None):
    """Assemble a workspace of crates holding the generated modules and `cargo check` it.
    Returns {module: [error messages]} for modules with compiler errors."""
    shutil.rmtree(wsdir, ignore_errors=True)
    os.makedirs(wsdir)
    members = []
    groups = [modules[i::ncrates] for i in range(ncrates)]
    for k, g in enumerate(groups):
        if not g:
            continue
        cn = "g%d" % k
        members.append(cn)
        src = os.path.join(wsdir, cn, "src")
        os.makedirs(src)
        with open(os.path.join(wsdir, cn, "Cargo.toml"), "w") as f:
            f.write(CRATE_TOML % {"name": cn, "repo": REPO, "extra": ""})
        lib = ["#![allow(warnings)]"]
        for m in g:
            shutil.copyfile(os.path.join(codedir, m + ".rs"), os.path.join(src, m + ".rs"))
            lib.append('#[path = "%s.rs"] pub mod %s;' % (m, m))
        open(os.path.join(src, "lib.rs"), "w").write("\n".join(lib) + "\n")
    if macro_items:
        cn = "gm"
        members.append(cn)
        src = os.path.join(wsdir, cn, "src")
        os.makedirs(src)
        with open(os.path.join(wsdir, cn, "Cargo.toml"), "w") as f:
            f.write(CRATE_TOML % {"name": cn, "repo": REPO, "extra": 'varlink_derive = { path = "%s/varlink_derive" }' % REPO})
        lib = ["#![allow(warnings)]"]
        for j, (mname, text) in enumerate(macro_items):
            open(os.path.join(wsdir, cn, "src", mname + ".varlink"), "w").write(text)
            sub = "%s_file" % mname
            lib.append("pub mod %s_a { varlink_derive::varlink_file!(%s, \"src/%s.varlink\"); }" % (mname, mname, mname))
            if '"#' not in text:
                lib.append("pub mod %s_b { varlink_derive::varlink!(%s, r#\"%s\"#); }" % (mname, mname, text))
        open(os.path.join(src, "lib.rs"), "w").write("\n".join(lib) + "\n")
    with open(os.path.join(wsdir, "Cargo.toml"), "w") as f:
        f.write("[workspace]\nmembers = [%s]\nresolver = \"2\"\n" % ", ".join('"%s"' % m for m in members))
    os.makedirs(os.path.join(wsdir, ".cargo"))
    open(os.path.join(wsdir, ".cargo", "config.toml"), "w").write("[net]\noffline = true\n")
    for cand in (os.path.join(REPO, "Cargo.lock"), "/repo/Cargo.lock", os.path.join(HARNESS, "Cargo.lock.base")):
        if os.path.exists(cand):
            shutil.copyfile(cand, os.path.join(wsdir, "Cargo.lock"))
            break
    with build_lock():
        guard_target(GEN_TARGET, wsdir, REPO_PACKAGES)
        cmd = ["cargo", "check", "--offline", "--workspace", "--keep-going", "--message-format=json", "--target-dir", GEN_TARGET, "-j", "12"]
        p = subprocess.run(cmd, cwd=wsdir, env=cargo_env(), stdout=subprocess.PIPE, stderr=subprocess.PIPE, text=True)
    res.cmds.append(" ".join(cmd))
    errors = {}
    saw_any = False
    for line in p.stdout.splitlines():
        if not line.startswith("{"):
            continue
        try:
            j = json.loads(line)
        except ValueError:
            continue
        saw_any = True
        if j.get("reason") != "compiler-message":
            continue
        msg = j["message"]
        if msg.get("level") != "error":
            continue
        mod = None
        for sp in msg.get("spans", []):
            fn = sp.get("file_name", "")
            m = re.search(r"src/([A-Za-z0-9_]+)\.(rs|varlink)$", fn)
            if m and m.group(1) != "lib":
                mod = m.group(1)
                break
            if fn.endswith("src/lib.rs") and "gm" in j.get("package_id", "") + j.get("manifest_path", ""):
                # proc-macro expansion errors point into lib.rs: find the module by line
                try:
                    lines = open(os.path.join(wsdir, "gm", "src", "lib.rs")).read().splitlines()
                    lt = lines[sp["line_start"] - 1]
                    mm = re.search(r"pub mod (\w+)_[ab] ", lt)
                    if mm:
                        mod = mm.group(1)
                        break
                except Exception:
                    pass
        code = (msg.get("code") or {}).get("code") or ""
        errors.setdefault(mod or "?", []).append("%s %s" % (code, msg.get("message", "")[:200]))
    if not saw_any and p.returncode != 0:
        log(p.stderr[-3000:])
        raise ToolError("cargo check of the generated crates did not run")
    return errors


def check_C09(tier):
    res = Result("C09", tier, "exploration")
    vh = build_harness()
    bins = build_repo_bins(["varlink_generator"])
    genbin = os.path.join(bins, "varlink-rust-generator")
    thorough = tier == "thorough"
    # (1) programs: every type shape in every position, every name of the pools in every name position, member sequences
    names = idl_asts(res, "names", 1, 3)
    types = idl_asts(res, "types", 3 if thorough else 2, 3)
    shapes = idl_asts(res, "shapes", 1, 3)
    stacked = idl_asts(res, "stacked", 1, 3)
    # typedefs that refer to themselves / each other behind [] or [string]: finitely sized, so the property applies
    recursive = [c for c in idl_asts(res, "recursive", 1, 3) if c["finite"]]
    cases = names + types + (shapes if thorough else shapes[::20]) + (stacked if thorough else stacked[::2]) + recursive
    items = []
    for k, c in enumerate(cases):
        c["_name"] = "m%d" % k
        items.append({"name": c["_name"], "text": render(c)})
    codedir = os.path.join(res.wd, "code")
    obs = run_generator(res, vh, items, codedir)
    compiled = []
    for c, it in zip(cases, items):
        fr = obs.get(c["_name"], {})
        bad = {k: v for k, v in fr.items() if not v.get("ok")}
        sigbase = "names=%s" % ",".join(special_names(c)) if c["mode"] == "names" else c["mode"]
        if bad:
            k, v = sorted(bad.items())[0]
            what = "panicked: %s" % v.get("msg", "")[:160] if v.get("panic") else "failed: %s" % v.get("err", "")[:160]
            res.add_failures([{"fail": True, "case": c["_name"], "variant": "generate", "sig": "generate " + sigbase,
                               "detail": "front-end %s %s on a valid definition:\n%s" % (k, what, it["text"]), "input": c, "text": it["text"]}], "generate")
            continue
        if fr["generate"]["hash"] != fr["generate_with_options"]["hash"] or fr["generate_tosource"]["hash"] != fr["compile"]["hash"]:
            res.add_failures([{"fail": True, "case": c["_name"], "variant": "front-ends differ", "sig": "front-ends differ",
                               "detail": "generate / generate_with_options / compile emit different code for\n" + it["text"], "input": c}], "generate")
        compiled.append(c)
    # (2) the emitted Rust compiles against the runtime crate (rustc is the oracle for "compiles")
    macro_items = [(c["_name"], it["text"]) for c, it in zip(cases, items) if c in compiled][:: (6 if thorough else 25)]
    errs = build_crates(res, os.path.join(res.wd, "ws"), [c["_name"] for c in compiled], codedir, macro_items=macro_items)
    by_name = {c["_name"]: c for c in cases}
    for mod, es in sorted(errs.items()):
        c = by_name.get(mod)
        if c is None:
            res.add_failures([{"fail": True, "case": mod, "variant": "compile", "sig": "compile ?", "detail": "compiler errors not attributable to a module: %s" % es[:3]}], "compile")
            continue
        f5 = error_param_has_anon(c)
        special = special_names(c)
        codes = sorted({e.split(" ")[0] for e in es})
        sig = "compile %s%s%s" % (" ".join(codes), " error-param-anon" if f5 else "", " names=" + ",".join(special) if special else "")
        res.add_failures([{"fail": True, "case": mod, "variant": "compile", "sig": sig,
                           "detail": "generated code does not compile (%s):\n%s\n--- definition:\n%s" % (codes, "\n".join(es[:4]), render(c)),
                           "input": c, "text": render(c)}], "compile")
    res.extra["programs"] = len(cases)
    res.extra["programs_compiled_clean"] = len(compiled) - len([m for m in errs if m in by_name])
    res.extra["macro_programs"] = len(macro_items)
    # (3) the command-line tool on a sample, and the rejection half: rejected texts produce a diagnostic and no code
    toks = [t for t in idl_tokens(res, baseset="small") if not t["accept"]]
    from_dups = [c for c in idl_asts(res, "dups", 1, 3) if c["dups"]]
    bad_texts = []
    for t in toks[:: (3 if thorough else 12)]:
        bad_texts.append(render_tokens(t["toks"]))
    for c in from_dups[:: (2 if thorough else 8)]:
        bad_texts.append(render(c))
    bad_items = [{"name": "bad%d" % k, "text": t} for k, t in enumerate(bad_texts)]
    bobs = run_generator(res, vh, bad_items, os.path.join(res.wd, "badcode"))
    for it in bad_items:
        fr = bobs.get(it["name"], {})
        for k, v in fr.items():
            if v.get("ok") or v.get("panic"):
                res.add_failures([{"fail": True, "case": it["name"], "variant": "reject", "sig": "reject " + k,
                                   "detail": "front-end %s %s for a definition the parser rejects:\n%s" % (k, "emitted code" if v.get("ok") else "panicked (%s)" % v.get("msg", "")[:100], it["text"]),
                                   "text": it["text"]}], "reject")
                break
    nbin = 0
    for it in (items[:: (10 if thorough else 60)] + bad_items[:: (5 if thorough else 20)]):
        nbin += 1
        fn = os.path.join(res.wd, "cli-%s.varlink" % it["name"])
        open(fn, "w").write(it["text"])
        p = subprocess.run([genbin, fn], stdout=subprocess.PIPE, stderr=subprocess.PIPE, text=True)
        valid = not it["name"].startswith("bad")
        if valid and (p.returncode != 0 or not p.stdout.strip()) and obs.get(it["name"], {}).get("generate", {}).get("ok"):
            res.add_failures([{"fail": True, "case": it["name"], "variant": "cli", "sig": "cli valid", "detail": "varlink-rust-generator failed on a valid definition: %s" % p.stderr[-300:]}], "cli")
        if not valid and (p.returncode == 0 or p.stdout.strip()):
            res.add_failures([{"fail": True, "case": it["name"], "variant": "cli", "sig": "cli invalid",
                               "detail": "varlink-rust-generator exit %d, %d bytes of code on stdout for a rejected definition:\n%s" % (p.returncode, len(p.stdout), it["text"])}], "cli")
    # build-script helper (OUT_DIR)
    for it in items[:: (25 if thorough else 120)] + bad_items[:: (15 if thorough else 40)]:
        nbin += 1
        fn = os.path.join(res.wd, "cb-%s.varlink" % it["name"])
        open(fn, "w").write(it["text"])
        od = os.path.join(res.wd, "outdir-" + it["name"])
        os.makedirs(od, exist_ok=True)
        p = subprocess.run([vh, "cargobuild", fn], env=dict(os.environ, OUT_DIR=od), stdout=subprocess.PIPE, stderr=subprocess.PIPE, text=True)
        produced = [f for f in os.listdir(od) if os.path.getsize(os.path.join(od, f)) > 0]
        valid = not it["name"].startswith("bad")
        if valid and obs.get(it["name"], {}).get("generate", {}).get("ok") and (p.returncode != 0 or not produced):
            res.add_failures([{"fail": True, "case": it["name"], "variant": "cargo_build", "sig": "cargo_build valid", "detail": "cargo_build failed on a valid definition: %s" % p.stderr[-300:]}], "cargo_build")
        if not valid and (p.returncode == 0 or produced):
            res.add_failures([{"fail": True, "case": it["name"], "variant": "cargo_build", "sig": "cargo_build invalid",
                               "detail": "cargo_build exit %d and output %s for a rejected definition" % (p.returncode, produced)}], "cargo_build")
        # the helper that writes into the source tree (beside the input)
        nbin += 1
        sd = os.path.join(res.wd, "tosrc-" + it["name"])
        os.makedirs(sd, exist_ok=True)
        fn2 = os.path.join(sd, "org.example.x.varlink")
        open(fn2, "w").write(it["text"])
        p = subprocess.run([vh, "cargobuild", "--tosource", fn2], stdout=subprocess.PIPE, stderr=subprocess.PIPE, text=True)
        outp = os.path.join(sd, "org_example_x.rs")
        has_code = os.path.exists(outp) and os.path.getsize(outp) > 0
        if valid and obs.get(it["name"], {}).get("generate", {}).get("ok") and (p.returncode != 0 or not has_code):
            res.add_failures([{"fail": True, "case": it["name"], "variant": "cargo_build_tosource", "sig": "cargo_build_tosource valid",
                               "detail": "cargo_build_tosource failed on a valid definition (exit %d): %s" % (p.returncode, p.stderr[-300:])}], "cargo_build")
        if not valid and (p.returncode == 0 or has_code or not p.stderr.strip()):
            res.add_failures([{"fail": True, "case": it["name"], "variant": "cargo_build_tosource", "sig": "cargo_build_tosource invalid",
                               "detail": "cargo_build_tosource exit %d, code written: %s, diagnostic: %r for a rejected definition" % (p.returncode, has_code, p.stderr[-200:])}], "cargo_build")
    # several definitions in one call of the build-script helper: any rejected one fails the build, wherever it stands
    goods = [it for it in items[:: (40 if thorough else 160)] if obs.get(it["name"], {}).get("generate", {}).get("ok")][:6]
    bads = bad_items[:: (25 if thorough else 60)][:4]
    combos = []
    for g in goods[:3]:
        for b in bads:
            combos += [[b, g], [g, b], [g, b, goods[-1]]]
    combos += [[goods[0], goods[-1]]] if goods else []
    for k, combo in enumerate(combos):
        nbin += 1
        od = os.path.join(res.wd, "many-%d" % k)
        os.makedirs(od, exist_ok=True)
        fns = []
        for j, it in enumerate(combo):
            fn = os.path.join(od, "org.example.m%d.varlink" % j)
            open(fn, "w").write(it["text"])
            fns.append(fn)
        outd = os.path.join(od, "out")
        os.makedirs(outd, exist_ok=True)
        p = subprocess.run([vh, "cargobuild", "--many"] + fns, env=dict(os.environ, OUT_DIR=outd), stdout=subprocess.PIPE, stderr=subprocess.PIPE, text=True)
        any_bad = any(it["name"].startswith("bad") for it in combo)
        if any_bad and p.returncode == 0:
            res.add_failures([{"fail": True, "case": "many-%d" % k, "variant": "cargo_build_many", "sig": "cargo_build_many exit 0 with a rejected definition",
                               "detail": "cargo_build_many exits 0 although definition #%d of %d is rejected by the parser (order: %s)" %
                                         (1 + [it["name"].startswith("bad") for it in combo].index(True), len(combo), [("rejected" if it["name"].startswith("bad") else "valid") for it in combo])}], "cargo_build")
        if not any_bad and p.returncode != 0:
            res.add_failures([{"fail": True, "case": "many-%d" % k, "variant": "cargo_build_many", "sig": "cargo_build_many valid",
                               "detail": "cargo_build_many failed on valid definitions: %s" % p.stderr[-300:]}], "cargo_build")
    res.evaluations += nbin
    res.extra["rejected_texts"] = len(bad_items)
    res.nontrivial = {it["text"] for it in items} | {it["text"] for it in bad_items}
    res.sample({"definition": items[3]["text"]})
    res.sample({"definition": items[-1]["text"]})
    res.sample({"rejected": bad_items[0]["text"]})
    res.rule = ("programs = ASTs enumerated by MC_IdlAst: every type expression of the pool (depth 2/3, incl. anonymous structs / enums under "
                "[] / [string] / ?) in method input, output, error parameters and typedef fields; every name of three pools (ordinary, IDL "
                "keywords, Rust keywords + identifiers the generated code uses) in every name position; member sequences; each through "
                "generate / generate(tosource) / generate_with_options / compile (catch_unwind), the CLI tool, cargo_build (OUT_DIR) and "
                "the two proc macros, then `cargo check` against the runtime crate; rejection half: one-token-error texts and duplicate "
                "definitions must fail with a diagnostic and emit nothing; non-trivial = distinct definitions")
    res.assumptions = ["whether emitted Rust compiles is decided by rustc (cargo check --message-format=json), TLC contributes the complete "
                       "bounded enumeration of programs and the valid / rejected verdict"]
    return res.finish()


def render_tokens(toks):
    out = []
    glue = True
    n_name = n_fld = 0
    for t in toks:
        if t == "IFACE":
            w = "org.example.t"
        elif t == "NL":
            w = "\n"
        elif t == "Name":
            n_name += 1
            w = "N%dx" % n_name
        elif t == "fld":
            n_fld += 1
            w = "f%d" % n_fld
        elif t == "junk":
            w = "%"
        else:
            w = t
        if not (glue or t in (",", "NL") or not out):
            out.append(" ")
        out.append(w)
        glue = t in ("?", "[]", "[string]", "NL")
    return "".join(out)


# ---------------------------------------------------------------------------------------------------------------
# C08: round trip through generated client and server bindings

def values_of(t, typedefs, depth=0):
    """a few JSON values of IDL type t in the IDL's JSON shape (specs/Wire.tla): boundaries first"""
    c = t["c"]
    if c == "bool":
        return [True, False]
    if c == "int":
        return [0, 2 ** 63 - 1, -2 ** 63, 7]
    if c == "float":
        return [0.5, 1e308, -1.25]
    if c == "string":
        return ["", "é\n\"\\ \U0001F600", "plain"]
    if c == "object":
        return [{"a": [1, None, {"b": "c"}]}, "a string", 7, [1, 2]]
    if c == "ref":
        return values_of(typedefs[t["n"]], typedefs, depth + 1)
    if c == "arr":
        vs = values_of(t["e"], typedefs, depth + 1)
        return [[], vs[:2], [vs[-1]]]
    if c == "dict":
        if t["e"]["c"] == "struct" and not t["e"]["f"]:
            return [{}, {"one": {}, "é": {}}]          # string set: element -> {}
        vs = values_of(t["e"], typedefs, depth + 1)
        return [{}, {"k": vs[0], "é \"q\"": vs[-1]}]
    if c == "opt":
        vs = values_of(t["e"], typedefs, depth + 1)
        return [None, vs[0], vs[-1]]
    if c == "enum":
        return list(t["v"])
    if c == "struct":
        fvs = [values_of(f["t"], typedefs, depth + 1) for f in t["f"]]
        n = max([len(v) for v in fvs] + [1])
        out = []
        for k in range(min(n, 3)):
            o = {}
            for f, vs in zip(t["f"], fvs):
                v = vs[k % len(vs)]
                if v is None:
                    continue          # absent optional: omitted
                o[f["n"]] = v
            out.append(o)
        return out
    raise ValueError(c)


def drop_nulls(v):
    if isinstance(v, dict):
        return {k: drop_nulls(x) for k, x in v.items() if x is not None}
    if isinstance(v, list):
        return [drop_nulls(x) for x in v]
    return v


def shape_equal(a, b, t, typedefs):
    """equality of two JSON values AS VALUES OF IDL TYPE t: absent optional == null; floats compare numerically"""
    c = t["c"]
    if c == "ref":
        return shape_equal(a, b, typedefs[t["n"]], typedefs)
    if c == "opt":
        if a is None or b is None:
            return a is None and b is None
        return shape_equal(a, b, t["e"], typedefs)
    if c == "float":
        return isinstance(a, (int, float)) and isinstance(b, (int, float)) and float(a) == float(b) and not isinstance(a, bool) and not isinstance(b, bool)
    if c == "arr":
        return isinstance(a, list) and isinstance(b, list) and len(a) == len(b) and all(shape_equal(x, y, t["e"], typedefs) for x, y in zip(a, b))
    if c == "dict":
        return isinstance(a, dict) and isinstance(b, dict) and set(a) == set(b) and all(shape_equal(a[k], b[k], t["e"], typedefs) for k in a)
    if c == "struct":
        if not (isinstance(a, dict) and isinstance(b, dict)):
            return False
        names = [f["n"] for f in t["f"]]
        if (set(a) - set(names)) or (set(b) - set(names)):
            return False        # exactly the IDL field names
        return all(shape_equal(a.get(f["n"]), b.get(f["n"]), f["t"], typedefs) for f in t["f"])
    return type(a) == type(b) and a == b


RS = lambda s: json.dumps(s)  # a Rust string literal


def parse_generated(code):
    """pull the generator's own naming out of its output (method fn names, server signatures, error reply fns)"""
    info = {"client": {}, "server": {}, "errors": {}}
    for m in re.finditer(r'fn (r#\w+|\w+) \(& mut self((?: , r#\w+ : [^,)]+(?:<[^)]*>)?)*?)\s*,?\s*\) -> varlink :: MethodCall < (\w+) , (\w+) , Error > \{ varlink :: MethodCall :: < [^>]* > :: new \(self \. connection \. clone \(\) , "([^"]+)"', code):
        info["client"][m.group(5).rsplit(".", 1)[1]] = {"fn": m.group(1), "args": m.group(3), "reply": m.group(4)}
    t = re.search(r"pub trait VarlinkInterface \{(.*?)fn call_upgraded", code)
    if t:
        for d in t.group(1).split(" ; "):
            mm = re.match(r"\s*fn (r#\w+|\w+) \(& self , call : & mut dyn (Call_\w+)(.*)\) -> varlink :: Result < \(\) >\s*$", d)
            if mm:
                info["server"][mm.group(2)[len("Call_"):]] = {"fn": mm.group(1), "call": mm.group(2), "params": mm.group(3)}
    for m in re.finditer(r'fn (reply_\w+) \(& mut self[^{]*\{ self \. reply_struct \(varlink :: Reply :: error \("([^"]+)"', code):
        info["errors"][m.group(2).rsplit(".", 1)[1]] = m.group(1)
    return info


def make_driver(mod, case, info):
    """Rust source of the driver of one generated module"""
    ms = case["ast"]["members"]
    methods = [m for m in ms if m["k"] == "method"]
    errors = [m for m in ms if m["k"] == "error"]
    L = []
    L.append("use super::support::*; use super::%s::*; use serde_json::{json, Value}; use varlink::CallTrait;" % mod)
    L.append("pub struct Impl { pub rec: std::sync::Arc<Rec> }")
    L.append("impl VarlinkInterface for Impl {")
    for m in methods:
        sv = info["server"][m["n"]]
        seen = ", ".join("%s: serde_json::to_value(&r#%s).unwrap()" % (RS(f["n"]), f["n"]) for f in m["a"]["f"])
        L.append("  fn %s(&self, call: &mut dyn %s%s) -> varlink::Result<()> {" % (sv["fn"], sv["call"], sv["params"]))
        L.append("    let plan = self.rec.on_call(%s, json!({%s}));" % (RS(m["n"]), seen))
        reply_fields = ", ".join("r.r#%s" % f["n"] for f in m["b"]["f"])
        L.append("    if plan.kind == \"reply\" || plan.kind == \"stream\" {")
        L.append("      let r: %s_Reply = serde_json::from_value(plan.value.clone()).map_err(varlink::map_context!())?;" % m["n"])
        L.append("      if plan.kind == \"stream\" { call.set_continues(true); for _ in 0..plan.conts { let r2 = r.clone(); let r = r2; call.reply(%s)?; } call.set_continues(false); }" % reply_fields)
        L.append("      return call.reply(%s);" % reply_fields)
        L.append("    }")
        for e in errors:
            fn = info["errors"][e["n"]]
            ef = ", ".join("a.r#%s" % f["n"] for f in e["a"]["f"])
            L.append("    if plan.kind == %s { let a: %s_Args = serde_json::from_value(plan.value.clone()).map_err(varlink::map_context!())?; return call.%s(%s); }" % (RS("error:" + e["n"]), e["n"], fn, ef))
        L.append("    call.reply_method_not_implemented(%s.into())" % RS(m["n"]))
        L.append("  }")
    L.append("}")
    L.append("fn err_to_json(e: &Error) -> Value { match e.kind() {")
    for e in errors:
        L.append("  ErrorKind::r#%s(v) => json!({\"error\": %s, \"parameters\": serde_json::to_value(v).unwrap()})," % (e["n"], RS(e["n"])))
    L.append("  ErrorKind::Varlink_Error => json!({\"varlink\": varlink_kind(e.source_varlink_kind())}),")
    L.append("  ErrorKind::VarlinkReply_Error => json!({\"varlink_reply_error\": true}), } }")
    L.append("pub fn run(cases: &Value, out: &mut Vec<Value>) {")
    L.append("  for c in cases.as_array().map(|a| a.clone()).unwrap_or_default() {")
    L.append("    let rec: std::sync::Arc<Rec> = Default::default();")
    L.append("    *rec.plan.lock().unwrap() = Plan { kind: c[\"plan\"][\"kind\"].as_str().unwrap().to_string(), value: c[\"plan\"][\"value\"].clone(), conts: c[\"plan\"][\"conts\"].as_u64().unwrap_or(0) as usize };")
    L.append("    let service = varlink::VarlinkService::new(\"v\", \"p\", \"1\", \"u\", vec![Box::new(new(Box::new(Impl { rec: rec.clone() })))]);")
    L.append("    let mut lk = link(service);")
    L.append("    let mut client = VarlinkClient::new(lk.conn.clone());")
    L.append("    let mode = c[\"mode\"].as_str().unwrap().to_string();")
    L.append("    let mut results: Vec<Value> = Vec::new();")
    L.append("    if mode == \"raw\" { let rs = lk.raw_call(&c[\"raw\"]); results = rs; } else {")
    L.append("    match c[\"method\"].as_str().unwrap() {")
    for m in methods:
        cl = info["client"][m["n"]]
        args = ", ".join("a.r#%s" % f["n"] for f in m["a"]["f"])
        L.append("      %s => {" % RS(m["n"]))
        L.append("        let a: %s = match serde_json::from_value(c[\"args\"].clone()) { Ok(a) => a, Err(e) => { out.push(json!({\"id\": c[\"id\"], \"driver_error\": format!(\"spec value does not decode into the generated args struct: {}\", e)})); continue; } };" % cl["args"])
        L.append("        let mut mc = client.%s(%s);" % (cl["fn"], args))
        L.append("        match mode.as_str() {")
        L.append("          \"call\" => results.push(match mc.call() { Ok(r) => json!({\"ok\": serde_json::to_value(&r).unwrap()}), Err(e) => err_to_json(&e) }),")
        L.append("          \"oneway\" => results.push(match mc.oneway() { Ok(()) => json!({\"sent\": true}), Err(e) => err_to_json(&e) }),")
        L.append("          _ => match mc.more() { Err(e) => results.push(err_to_json(&e)), Ok(it) => for r in it { results.push(match r { Ok(r) => json!({\"ok\": serde_json::to_value(&r).unwrap()}), Err(e) => err_to_json(&e) }); } },")
        L.append("        }")
        L.append("      }")
    L.append("      other => results.push(json!({\"driver_error\": format!(\"unknown method {}\", other)})),")
    L.append("    } }")
    L.append("    if mode == \"oneway\" { let _ = lk.raw_call(&json!({\"method\": \"org.varlink.service.GetInfo\"})); }")
    L.append("    drop(client);")
    L.append("    let seen = rec.seen.lock().unwrap().clone();")
    L.append("    let w = lk.finish();")
    L.append("    out.push(json!({\"id\": c[\"id\"], \"results\": results, \"seen\": seen.iter().map(|(m, v)| json!({\"method\": m, \"args\": v})).collect::<Vec<_>>(), \"requests\": w.requests, \"replies\": w.replies}));")
    L.append("  }")
    L.append("}")
    return "\n".join(L) + "\n"


BIN_TOML = """[package]
name = "%(name)s"
version = "0.0.0"
edition = "2018"

[[bin]]
name = "%(name)s"
path = "src/main.rs"

[dependencies]
varlink = { path = "%(repo)s/varlink" }
serde = "1.0.102"
serde_derive = "1.0.102"
serde_json = "1.0.41"
"""


def ill_value(t, typedefs):
    """a JSON value that is certainly not of IDL type t (None when every value is: object)"""
    c = t["c"]
    if c == "ref":
        return ill_value(typedefs[t["n"]], typedefs)
    if c == "opt":
        return ill_value(t["e"], typedefs)
    if c == "object":
        return None
    if c in ("bool", "int", "float"):
        return "x"
    return 5   # string, array, map, struct, enum


def make_cases(mod, case, iface):
    """spec-side: the calls to make and what must be observed"""
    ms = case["ast"]["members"]
    typedefs = {m["n"]: m["a"] for m in ms if m["k"] == "type"}
    methods = [m for m in ms if m["k"] == "method"]
    errors = [m for m in ms if m["k"] == "error"]
    cases = []
    n = 0
    for m in methods:
        ins = values_of(m["a"], typedefs)
        outs = values_of(m["b"], typedefs)
        for k in range(max(len(ins), len(outs), 1)):
            vin, vout = ins[k % len(ins)], outs[k % len(outs)]
            for mode in (["call", "more", "oneway"] if k == 0 else ["call"]):
                n += 1
                cases.append({"id": "%s-%d" % (mod, n), "method": m["n"], "mode": mode, "args": vin,
                              "plan": {"kind": "stream" if mode == "more" else "reply", "value": vout, "conts": 2 if mode == "more" else 0},
                              "expect": {"in": vin, "out": vout, "conts": 2 if mode == "more" else 0}})
        for e in errors:
            evs = values_of(e["a"], typedefs)
            for k, ev in enumerate(evs[:2]):
                n += 1
                cases.append({"id": "%s-%d" % (mod, n), "method": m["n"], "mode": "call", "args": ins[0],
                              "plan": {"kind": "error:" + e["n"], "value": ev, "conts": 0},
                              "expect": {"in": ins[0], "error": e["n"], "error_value": ev}})
        if m["a"]["f"]:
            # missing and ill-typed parameters -> InvalidParameter
            full = "%s.%s" % (iface, m["n"])
            good = drop_nulls(ins[1 % len(ins)])
            raws = [("no-parameters", {"method": full}), ("empty-parameters", {"method": full, "parameters": {}}),
                    ("ill-typed", {"method": full, "parameters": {f["n"]: [[["x"]]] for f in m["a"]["f"]}}),
                    ("parameters-not-object", {"method": full, "parameters": 5})]
            first_required = [f for f in m["a"]["f"] if f["t"]["c"] != "opt"]
            if not first_required:
                raws = [r for r in raws if r[0] not in ("empty-parameters",)]
            # exactly one declared, non-optional member left out of an otherwise good request (whatever its type: an array, a map
            # or a string set is not "optional because it could be empty"), and one member ill-typed among good ones
            if isinstance(good, dict):
                for f in first_required:
                    if f["n"] in good:
                        raws.append(("missing-" + f["n"], {"method": full, "parameters": {k: v for k, v in good.items() if k != f["n"]}}))
                        bad = ill_value(f["t"], typedefs)
                        if bad is not None:
                            raws.append(("ill-typed-" + f["n"], {"method": full, "parameters": dict(good, **{f["n"]: bad})}))
            for tag, raw in raws:
                n += 1
                cases.append({"id": "%s-%d" % (mod, n), "method": m["n"], "mode": "raw", "raw": raw, "args": None,
                              "plan": {"kind": "reply", "value": outs[0], "conts": 0}, "expect": {"invalid": tag}})
    return cases, typedefs


def check_result(c, r, case, typedefs, iface):
    """compare one driver observation with the spec; returns None or a description"""
    ms = {m["n"]: m for m in case["ast"]["members"]}
    m = ms[c["method"]]
    exp = c["expect"]
    if "driver_error" in r:
        return r["driver_error"]
    if "invalid" in exp:
        rs = r["results"]
        if len(rs) != 1 or rs[0].get("error") != "org.varlink.service.InvalidParameter":
            return "request with %s answered %s, expected InvalidParameter" % (exp["invalid"], rs)
        if r["seen"]:
            return "request with %s reached the implementation" % exp["invalid"]
        return None
    reqs = [q for q in r["requests"] if q.get("method") != "org.varlink.service.GetInfo"]
    if len(reqs) != 1:
        return "client put %d requests on the wire" % len(reqs)
    q = reqs[0]
    if q.get("method") != "%s.%s" % (iface, c["method"]):
        return "request method on the wire is %r, expected %s.%s" % (q.get("method"), iface, c["method"])
    flags = {k: q.get(k) for k in ("more", "oneway", "upgrade") if q.get(k)}
    want_flags = {"more": {"more": True}, "oneway": {"oneway": True}}.get(c["mode"], {})
    if flags != want_flags:
        return "request flags on the wire %s, expected %s" % (flags, want_flags)
    if not shape_equal(q.get("parameters", {}), exp["in"], m["a"], typedefs):
        return "request parameters on the wire %s are not the IDL shape of %s" % (json.dumps(q.get("parameters")), json.dumps(exp["in"]))
    if len(r["seen"]) != 1 or r["seen"][0]["method"] != c["method"] or not shape_equal(r["seen"][0]["args"], exp["in"], m["a"], typedefs):
        return "implementation was handed %s, client sent %s" % (json.dumps(r["seen"]), json.dumps(exp["in"]))
    if c["mode"] == "oneway":
        if r["results"] != [{"sent": True}]:
            return "oneway call returned %s" % r["results"]
        if [x for x in r["replies"] if "interfaces" not in json.dumps(x)]:
            return "reply on the wire for a oneway call: %s" % r["replies"]
        return None
    if "error" in exp:
        e = ms[exp["error"]]
        w = r["replies"]
        if len(w) != 1 or w[0].get("error") != "%s.%s" % (iface, exp["error"]) or not shape_equal(w[0].get("parameters", {}), exp["error_value"], e["a"], typedefs):
            return "error on the wire %s, expected %s.%s %s" % (json.dumps(w), iface, exp["error"], json.dumps(exp["error_value"]))
        res = r["results"]
        if len(res) != 1 or res[0].get("error") != exp["error"] or not shape_equal(res[0].get("parameters") or {}, exp["error_value"], e["a"], typedefs):
            return "client received %s, expected error variant %s with %s" % (json.dumps(res), exp["error"], json.dumps(exp["error_value"]))
        return None
    nrep = exp["conts"] + 1
    w = r["replies"]
    if len(w) != nrep:
        return "%d replies on the wire, expected %d" % (len(w), nrep)
    for k, x in enumerate(w):
        if bool(x.get("continues")) != (k < nrep - 1) or x.get("error") or not shape_equal(x.get("parameters", {}), exp["out"], m["b"], typedefs):
            return "reply %d on the wire %s, expected parameters %s continues=%s" % (k + 1, json.dumps(x), json.dumps(exp["out"]), k < nrep - 1)
    res = r["results"]
    if len(res) != nrep or any("ok" not in x or not shape_equal(x["ok"], exp["out"], m["b"], typedefs) for x in res):
        return "client received %s, expected %d x %s" % (json.dumps(res), nrep, json.dumps(exp["out"]))
    return None


def check_C08(tier):
    res = Result("C08", tier, "model_checking")
    vh = build_harness()
    thorough = tier == "thorough"
    progs = idl_asts(res, "rt", 3 if thorough else 2, 3, tag="rt")
    if thorough:
        progs = progs[:167] + progs[167::6]
    else:
        progs = progs[::4] + progs[1::17]
    items = []
    for k, c in enumerate(progs):
        c["_name"] = "r%d" % k
        c["_iface"] = "org.example.rt%d" % k
        items.append({"name": c["_name"], "text": render(c, iface_name=c["_iface"])})
    codedir = os.path.join(res.wd, "code")
    obs = run_generator(res, vh, items, codedir)
    wsdir = os.path.join(res.wd, "ws")
    shutil.rmtree(wsdir, ignore_errors=True)
    os.makedirs(wsdir)
    ncr = 12
    groups = [[] for _ in range(ncr)]
    allcases = {}
    skipped = 0
    meta = {}
    for k, (c, it) in enumerate(zip(progs, items)):
        fr = obs.get(c["_name"], {})
        if not fr.get("generate_tosource", {}).get("ok"):
            skipped += 1
            res.add_failures([{"fail": True, "case": c["_name"], "variant": "generate", "sig": "generate rt", "detail": "generator failed on\n" + it["text"], "text": it["text"]}], "generate")
            continue
        code = open(os.path.join(codedir, c["_name"] + ".rs")).read()
        info = parse_generated(code)
        ms = c["ast"]["members"]
        if any(m["n"] not in info["client"] or m["n"] not in info["server"] for m in ms if m["k"] == "method") or \
           any(e["n"] not in info["errors"] for e in ms if e["k"] == "error"):
            raise ToolError("cannot locate the generated method / error names in the output for " + c["_name"])
        cases, typedefs = make_cases(c["_name"], c, c["_iface"])
        allcases[c["_name"]] = cases
        meta[c["_name"]] = (c, typedefs)
        groups[k % ncr].append((c["_name"], make_driver(c["_name"], c, info)))
    members = []
    for g, mods in enumerate(groups):
        if not mods:
            continue
        cn = "run%d" % g
        members.append(cn)
        src = os.path.join(wsdir, cn, "src")
        os.makedirs(src)
        open(os.path.join(wsdir, cn, "Cargo.toml"), "w").write(BIN_TOML % {"name": cn, "repo": REPO})
        shutil.copyfile(os.path.join(VERIF, "gencrate", "support.rs"), os.path.join(src, "support.rs"))
        main = ["#![allow(warnings)]", "mod support;"]
        body = []
        for mod, drv in mods:
            shutil.copyfile(os.path.join(codedir, mod + ".rs"), os.path.join(src, mod + ".rs"))
            open(os.path.join(src, "drv_%s.rs" % mod), "w").write(drv)
            main.append('#[path = "%s.rs"] mod %s;' % (mod, mod))
            main.append('#[path = "drv_%s.rs"] mod drv_%s;' % (mod, mod))
            body.append('    drv_%s::run(&cases[%s], &mut out);' % (mod, RS(mod)))
        main.append("fn main() {")
        main.append("    let cases: serde_json::Value = serde_json::from_reader(std::fs::File::open(std::env::args().nth(1).unwrap()).unwrap()).unwrap();")
        main.append("    let mut out: Vec<serde_json::Value> = Vec::new();")
        main += body
        main.append("    for o in out { println!(\"{}\", o); }")
        main.append("}")
        open(os.path.join(src, "main.rs"), "w").write("\n".join(main) + "\n")
    open(os.path.join(wsdir, "Cargo.toml"), "w").write("[workspace]\nmembers = [%s]\nresolver = \"2\"\n\n[profile.dev]\ndebug = 0\nopt-level = 0\n" % ", ".join('"%s"' % m for m in members))
    os.makedirs(os.path.join(wsdir, ".cargo"))
    open(os.path.join(wsdir, ".cargo", "config.toml"), "w").write("[net]\noffline = true\n")
    for cand in (os.path.join(REPO, "Cargo.lock"), "/repo/Cargo.lock", os.path.join(HARNESS, "Cargo.lock.base")):
        if os.path.exists(cand):
            shutil.copyfile(cand, os.path.join(wsdir, "Cargo.lock"))
            break
    bindir = os.path.join(res.wd, "bin")
    os.makedirs(bindir, exist_ok=True)
    with build_lock():
        guard_target(GEN_TARGET, wsdir, REPO_PACKAGES)
        cmd = ["cargo", "build", "--offline", "--workspace", "--target-dir", GEN_TARGET, "-j", "14"]
        p = subprocess.run(cmd, cwd=wsdir, env=cargo_env(), stdout=subprocess.PIPE, stderr=subprocess.PIPE, text=True)
        if p.returncode == 0:
            for cn in members:   # private copies: the shared target directory may be rebuilt by another run at any time
                shutil.copy2(os.path.join(GEN_TARGET, "debug", cn), os.path.join(bindir, cn))
    res.cmds.append(" ".join(cmd))
    if p.returncode != 0:
        errs = [l for l in p.stderr.splitlines() if l.startswith("error")]
        res.add_failures([{"fail": True, "case": "build", "variant": "compile", "sig": "compile drivers",
                           "detail": "generated bindings + drivers do not build:\n" + "\n".join(p.stderr.splitlines()[-40:])}], "compile")
        return res.finish()
    casefile = os.path.join(res.wd, "cases.json")
    json.dump(allcases, open(casefile, "w"))
    nexec = 0
    for cn in members:
        pr = subprocess.run([os.path.join(bindir, cn), casefile], stdout=subprocess.PIPE, stderr=subprocess.PIPE, text=True, timeout=900)
        if pr.returncode != 0:
            res.add_failures([{"fail": True, "case": cn, "variant": "driver", "sig": "driver died", "detail": "driver %s exited %s: %s" % (cn, pr.returncode, pr.stderr[-800:])}], "run")
            continue
        byid = {}
        for line in pr.stdout.splitlines():
            if line.startswith("{"):
                j = json.loads(line)
                byid[j["id"]] = j
        for mod, cs in allcases.items():
            for c in cs:
                if c["id"] not in byid:
                    continue
                nexec += 1
                case, typedefs = meta[mod]
                d = check_result(c, byid[c["id"]], case, typedefs, case["_iface"])
                if d:
                    res.add_failures([{"fail": True, "case": c["id"], "variant": c["mode"], "sig": "%s %s" % (c["mode"], type_text([m for m in case["ast"]["members"] if m["n"] == "M1"][0]["a"])),
                                       "detail": d + "\n--- definition:\n" + render(case, case["_iface"]), "input": c}], "roundtrip")
    res.traces += nexec
    res.evaluations += nexec
    res.extra["interfaces"] = len(progs)
    res.extra["calls"] = nexec
    res.extra["skipped_known"] = skipped
    res.nontrivial = {json.dumps(c["ast"], sort_keys=True) for c in progs}
    for mod in list(allcases)[:2]:
        res.sample({"definition": render(meta[mod][0], meta[mod][0]["_iface"]), "first_call": allcases[mod][0]})
    res.rule = ("interfaces enumerated by MC_IdlAst mode rt: every type of the pool (depth 2/3: scalars, references, [] / [string] / [string]() / ? "
                "nesting, anonymous structs and enums, keyword-like field names) as method input, output, typedef field and error parameter; "
                "per type boundary values in the IDL's JSON shape (specs/Wire.tla); modes call / more / oneway, declared errors, missing and "
                "ill-typed parameters; compared: request on the wire, values handed to the implementation, replies on the wire, value or "
                "error variant returned by the generated client; non-trivial = distinct interfaces")
    res.exhaustive = True
    res.assumptions = ["typed values are built by deserialising the spec's JSON into the generated structs; the wire bytes are compared with the "
                       "spec's shape independently, so a symmetric Serialize/Deserialize error cannot hide",
                       "the compile step is rustc's verdict (C09)"]
    return res.finish()
