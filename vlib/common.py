"""Shared machinery of /verif/bin/check: TLC runner, harness builder/runner, findings, evidence."""
import fcntl
import json
import os
import re
import shutil
import subprocess
import sys
import time

VERIF = os.path.dirname(os.path.dirname(os.path.abspath(__file__)))
SPECS = os.path.join(VERIF, "specs")
HARNESS = os.environ.get("VERIF_HARNESS", os.path.join(VERIF, "harness"))  # a private copy for parallel sweeps
WORK = os.environ.get("VERIF_WORK", os.path.join(VERIF, "work"))
REPO = os.path.abspath(os.environ.get("VERIF_REPO", "/repo"))
GUARD = "varlink_rust_verif"


class ToolError(Exception):
    """Tooling failed (build, TLC crash, timeout): exit 2, never reported as a violation."""


def seed():
    try:
        return int(os.environ.get("VERIF_SEED", "1"))
    except ValueError:
        return 1


def log(*a):
    print(*a, file=sys.stderr, flush=True)


def workdir(pid, clean=True):
    d = os.path.join(WORK, pid)
    if clean and os.path.isdir(d):
        shutil.rmtree(d, ignore_errors=True)
    os.makedirs(d, exist_ok=True)
    return d


# --------------------------------------------------------------------------------------------
# harness build (always from the current working tree of the repository under test)

def cargo_env():
    e = dict(os.environ)
    e["CARGO_NET_OFFLINE"] = "true"
    e.setdefault("CARGO_TERM_COLOR", "never")
    return e


HARNESS_REPO_PACKAGES = ["varlink", "varlink_parser", "varlink_generator", "varlink_stdinterfaces"]
REPO_PACKAGES = ["varlink", "varlink_parser", "varlink_generator", "varlink_derive", "varlink_stdinterfaces",
                 "varlink-cli", "varlink-certification"]


def repo_src_hash():
    """Content hash of the tree under test (everything but .git and build output)."""
    import hashlib
    h = hashlib.sha256()
    for root, dirs, files in os.walk(REPO):
        dirs[:] = sorted(d for d in dirs if d not in (".git", "target"))
        for f in sorted(files):
            fn = os.path.join(root, f)
            try:
                if os.path.islink(fn) or os.path.getsize(fn) > 8 << 20:
                    continue
                h.update(os.path.relpath(fn, REPO).encode() + b"\0")
                with open(fn, "rb") as fh:
                    h.update(fh.read())
                h.update(b"\0")
            except OSError:
                continue
    return h.hexdigest()


def _force_rebuild_if_sources_changed(target_dir, cwd, packages, extra_env=None):
    """cargo decides freshness by mtime; a tree whose CONTENT changed while its mtimes did not (restored from a copy, or another
    checkout mapped onto the same unit hashes) would silently reuse stale objects.  Key the build on a content hash instead."""
    import hashlib
    os.makedirs(target_dir, exist_ok=True)
    stamp = os.path.join(target_dir, ".srchash-" + hashlib.sha1(REPO.encode()).hexdigest()[:12])
    last = os.path.join(target_dir, ".srchash-last")
    cur = repo_src_hash()
    prev = open(stamp).read().strip() if os.path.exists(stamp) else None
    prev_last = open(last).read().strip() if os.path.exists(last) else None
    built_before = os.path.isdir(os.path.join(target_dir, "debug"))
    if (prev != cur or prev_last != cur) and built_before:
        e = cargo_env()
        if extra_env:
            e.update(extra_env)
        for pk in packages:
            # one by one: a package that is not part of this build graph is simply not there to clean
            pc = subprocess.run(["cargo", "clean", "--offline", "--target-dir", target_dir, "-p", pk], cwd=cwd, env=e,
                                stdout=subprocess.PIPE, stderr=subprocess.STDOUT, text=True)
            if pc.returncode != 0 and "did not match any packages" not in pc.stdout:
                raise ToolError("cargo clean -p %s failed in %s: %s" % (pk, cwd, pc.stdout[-500:]))
        for fn in (stamp, last):
            if os.path.exists(fn):
                os.unlink(fn)
    return (stamp, last, cur)


def _record_src_hash(tok):
    stamp, last, cur = tok
    for fn in (stamp, last):
        open(fn, "w").write(cur)


import contextlib


@contextlib.contextmanager
def build_lock():
    """Serialises everything that writes into the shared cargo target directories under HARNESS."""
    os.makedirs(WORK, exist_ok=True)
    lock = open(os.path.join(HARNESS, ".build.lock"), "w")
    fcntl.flock(lock, fcntl.LOCK_EX)
    try:
        yield
    finally:
        fcntl.flock(lock, fcntl.LOCK_UN)
        lock.close()


def guard_target(target_dir, cwd, packages):
    """For builds outside build_harness / build_repo_bins that cache crates of the tree under test in `target_dir`."""
    _record_src_hash(_force_rebuild_if_sources_changed(target_dir, cwd, packages))


def build_harness():
    """(Re)generate harness/Cargo.toml for REPO and build `vh`.  Serialised with a file lock."""
    os.makedirs(WORK, exist_ok=True)
    lock = open(os.path.join(HARNESS, ".build.lock"), "w")
    fcntl.flock(lock, fcntl.LOCK_EX)
    try:
        tmpl = open(os.path.join(HARNESS, "Cargo.toml.in")).read().replace("@REPO@", REPO)
        ct = os.path.join(HARNESS, "Cargo.toml")
        if not os.path.exists(ct) or open(ct).read() != tmpl:
            open(ct, "w").write(tmpl)
        # the repository's own lock file pins every third-party crate to what is in the offline cache
        for cand in (os.path.join(REPO, "Cargo.lock"), "/repo/Cargo.lock", os.path.join(HARNESS, "Cargo.lock.base")):
            if os.path.exists(cand):
                shutil.copyfile(cand, os.path.join(HARNESS, "Cargo.lock"))
                break
        t0 = time.time()
        tok = _force_rebuild_if_sources_changed(os.path.join(HARNESS, "target"), HARNESS, HARNESS_REPO_PACKAGES)
        p = subprocess.run(["cargo", "build", "--offline", "--quiet"], cwd=HARNESS, env=cargo_env(),
                           stdout=subprocess.PIPE, stderr=subprocess.STDOUT, text=True)
        if p.returncode != 0:
            log(p.stdout[-6000:])
            raise ToolError("harness build failed against %s" % REPO)
        _record_src_hash(tok)
        log("[build] harness built against %s in %.1fs" % (REPO, time.time() - t0))
        # a private copy, taken under the lock: another run (possibly for another tree) may rebuild target/debug/vh at any time
        mine = os.path.join(WORK, "vh")
        tmp = mine + ".tmp%d" % os.getpid()
        shutil.copy2(os.path.join(HARNESS, "target", "debug", "vh"), tmp)
        os.replace(tmp, mine)
    finally:
        fcntl.flock(lock, fcntl.LOCK_UN)
        lock.close()
    return mine


def build_repo_bins(packages):
    """Build binaries of the repository under test (varlink-cli, varlink-certification, ...) into the
    harness target dir (never into the repository).  Returns the directory with the binaries."""
    tdir = os.path.join(HARNESS, "target", "repo-bins")
    lock = open(os.path.join(HARNESS, ".build.lock"), "w")
    fcntl.flock(lock, fcntl.LOCK_EX)
    try:
        cmd = ["cargo", "build", "--offline", "--quiet", "--target-dir", tdir]
        for p in packages:
            cmd += ["-p", p]
        e = cargo_env()
        # the repository is built with the hook guard on, like the harness
        e["RUSTFLAGS"] = ("--cfg %s --check-cfg cfg(%s) " % (GUARD, GUARD) + os.environ.get("VERIF_EXTRA_RUSTFLAGS", "")).strip()
        tok = _force_rebuild_if_sources_changed(tdir, REPO, REPO_PACKAGES, {"RUSTFLAGS": e["RUSTFLAGS"]})
        p = subprocess.run(cmd, cwd=REPO, env=e, stdout=subprocess.PIPE, stderr=subprocess.STDOUT, text=True)
        if p.returncode != 0:
            log(p.stdout[-6000:])
            raise ToolError("building %s from %s failed" % (packages, REPO))
        _record_src_hash(tok)
        # private copies, taken under the lock (see build_harness)
        mine = os.path.join(WORK, "repo-bins")
        os.makedirs(mine, exist_ok=True)
        for b in ("varlink", "varlink-certification", "varlink-rust-generator"):
            src = os.path.join(tdir, "debug", b)
            if os.path.exists(src):
                tmp = os.path.join(mine, b + ".tmp%d" % os.getpid())
                shutil.copy2(src, tmp)
                os.replace(tmp, os.path.join(mine, b))
    finally:
        fcntl.flock(lock, fcntl.LOCK_UN)
        lock.close()
    return mine


def run_vh(vh, args, cases, timeout=1800, env=None, hang_is_failure=False, death_is_failure=False):
    """Run the harness with NDJSON cases on stdin; returns (failures, summary, raw_lines)."""
    data = "\n".join(json.dumps(c, separators=(",", ":")) for c in cases) + "\n"
    e = dict(os.environ)
    e["VERIF_WORK"] = WORK
    e["VERIF_SEED"] = str(seed())
    e["RUST_BACKTRACE"] = "0"
    if env:
        e.update(env)
    import signal
    pr = subprocess.Popen([vh] + args, stdin=subprocess.PIPE, stdout=subprocess.PIPE, stderr=subprocess.PIPE, text=True, env=e,
                          start_new_session=True)
    try:
        so, se = pr.communicate(data, timeout=timeout)
    except subprocess.TimeoutExpired:
        try:
            os.killpg(pr.pid, signal.SIGKILL)
        except OSError:
            pass
        try:
            so, se = pr.communicate(timeout=10)
        except Exception:
            so, se = "", ""
        if hang_is_failure:
            return [{"fail": True, "case": 0, "variant": "hang", "detail": "harness run %s did not finish within %ss (a call into the library never returned)" % (args, timeout),
                     "sig": "hang " + " ".join(args)}], {"executions": 0, "cases": 0, "failures": 1}, []
        raise ToolError("harness %s timed out after %ss" % (args, timeout))

    class _P:
        pass
    p = _P()
    p.stdout, p.stderr, p.returncode = so, se, pr.returncode
    fails, summary, other = [], None, []
    for line in p.stdout.splitlines():
        line = line.strip()
        if not line.startswith("{"):
            continue
        try:
            j = json.loads(line)
        except ValueError:
            continue
        if j.get("fail"):
            j["vh_args"] = list(args)
            j["vh_env"] = {k: v for k, v in (env or {}).items() if k.startswith("VERIF_")}
            fails.append(j)
        elif j.get("summary"):
            import collections
            summary = collections.defaultdict(int, j)  # an aborted run (watchdog) has only the common keys
        else:
            other.append(j)
    if summary is None:
        import signal as _sig
        crashed = p.returncode is not None and -p.returncode in (_sig.SIGABRT, _sig.SIGSEGV, _sig.SIGBUS, _sig.SIGILL)
        if crashed:
            # the harness hosts the library (and its server threads) in-process: abort / segfault is the library crashing
            # (stack overflow, double free, abort on a poisoned state), never a way the harness itself ends
            fails.append({"fail": True, "case": 0, "variant": "crashed", "sig": "process hosting the library crashed (%s)" % args[0],
                          "detail": "the process hosting the library died with signal %d while the harness ran %s: %s" % (-p.returncode, " ".join(args), (p.stderr or "")[-600:])})
            import collections
            return fails, collections.defaultdict(int, {"failures": len(fails)}), other
        if death_is_failure and p.returncode is not None and p.returncode < 0:
            fails.append({"fail": True, "case": 0, "variant": "died", "sig": "died " + " ".join(args),
                          "detail": "the process calling into the library was killed by signal %d: %s" % (-p.returncode, p.stderr[-600:])})
            return fails, {"executions": 0, "cases": 0, "failures": len(fails)}, other
        m = re.search(r"panicked at (%s/[^\s:]+):(\d+)" % re.escape(REPO), p.stderr or "")
        if p.returncode == 101 and m:
            # a panic raised INSIDE the tree under test (not in the harness) while it was fed inputs from the property's domain:
            # that is an observation about the code, not a tooling problem
            where = os.path.relpath(m.group(1), REPO)
            fails.append({"fail": True, "case": 0, "variant": "library panic", "sig": "library panic in %s (%s)" % (where, args[0]),
                          "detail": "the library panicked at %s:%s while the harness ran %s: %s" % (where, m.group(2), " ".join(args), p.stderr[-600:])})
            import collections
            return fails, collections.defaultdict(int, {"failures": len(fails)}), other
        log(p.stderr[-4000:])
        raise ToolError("harness %s produced no summary (exit %s)" % (args, p.returncode))
    return fails, summary, other


# --------------------------------------------------------------------------------------------
# TLC

TLC_JAR = "/opt/veriftools/tla/tla2tools.jar"
COMMUNITY = None


def _classpath():
    # use the installed wrapper's classpath: ask `tlc` script where things are
    cp = [TLC_JAR]
    d = os.path.dirname(TLC_JAR)
    for f in sorted(os.listdir(d)):
        if f.endswith(".jar") and f != os.path.basename(TLC_JAR):
            cp.append(os.path.join(d, f))
    return ":".join(cp)


class TlcResult:
    def __init__(self):
        self.stdout = ""
        self.generated = 0
        self.distinct = 0
        self.depth = 0
        self.replay = []
        self.exit = 0
        self.violation = None
        self.wall = 0.0
        self.cmd = ""


def write_cfg(path, spec="Spec", constants=None, invariants=(), properties=(), constraints=(), view=None,
              postcondition=None, init=None, next_=None, symmetry=None, deadlock=False, action_constraints=()):
    lines = []
    if init and next_:
        lines += ["INIT %s" % init, "NEXT %s" % next_]
    else:
        lines.append("SPECIFICATION %s" % spec)
    if constants:
        lines.append("CONSTANTS")
        for k, v in constants.items():
            lines.append("  %s = %s" % (k, tla_value(v)))
    for i in invariants:
        lines.append("INVARIANT %s" % i)
    for p in properties:
        lines.append("PROPERTY %s" % p)
    for c in constraints:
        lines.append("CONSTRAINT %s" % c)
    for c in action_constraints:
        lines.append("ACTION_CONSTRAINT %s" % c)
    if view:
        lines.append("VIEW %s" % view)
    if symmetry:
        lines.append("SYMMETRY %s" % symmetry)
    if postcondition:
        lines.append("POSTCONDITION %s" % postcondition)
    lines.append("CHECK_DEADLOCK %s" % ("TRUE" if deadlock else "FALSE"))
    open(path, "w").write("\n".join(lines) + "\n")
    return path


def tla_value(v):
    if isinstance(v, bool):
        return "TRUE" if v else "FALSE"
    if isinstance(v, int):
        return str(v)
    if isinstance(v, str):
        if v.startswith("@"):  # raw TLA+ expression / model value
            return v[1:]
        return '"%s"' % v
    if isinstance(v, (list, tuple)):
        return "<<" + ", ".join(tla_value(x) for x in v) + ">>"
    if isinstance(v, (set, frozenset)):
        return "{" + ", ".join(tla_value(x) for x in sorted(v, key=str)) + "}"
    raise ValueError(v)


REPLAY_RE = re.compile(r'^<<"REPLAY", "(.*)">>$')


def tla_unescape(t):
    """Undo TLC's string-literal escaping (\\ \" \n \t \r \f)."""
    out = []
    i = 0
    n = len(t)
    while i < n:
        c = t[i]
        if c == "\\" and i + 1 < n:
            d = t[i + 1]
            out.append({"n": "\n", "t": "\t", "r": "\r", "f": "\f"}.get(d, d))
            i += 2
        else:
            out.append(c)
            i += 1
    return "".join(out)


def run_tlc(module, cfg, wd, workers=8, timeout=900, simulate=None, extra=(), env=None, xmx="8g",
            expect_violation=False, tag="tlc"):
    """Run TLC on specs/<module>.tla with config file `cfg`; parse statistics and REPLAY lines."""
    meta = os.path.join(wd, "md-%s" % tag)
    shutil.rmtree(meta, ignore_errors=True)
    cmd = ["java", "-XX:+UseParallelGC", "-Xmx%s" % xmx, "-Xss256m", "-cp", _classpath(), "tlc2.TLC",
           "-workers", str(workers), "-metadir", meta, "-cleanup", "-noGenerateSpecTE", "-maxSetSize", "50000000",
           "-config", cfg]
    if simulate:
        cmd += ["-simulate", simulate, "-seed", str(seed())]
    cmd += list(extra)
    cmd.append(module + ".tla")
    e = dict(os.environ)
    if env:
        e.update(env)
    r = TlcResult()
    r.cmd = " ".join(cmd)
    t0 = time.time()
    outp = os.path.join(wd, "%s.out" % tag)
    with open(outp, "w") as fo:
        try:
            p = subprocess.run(cmd, cwd=SPECS, stdout=fo, stderr=subprocess.STDOUT, timeout=timeout, env=e)
        except subprocess.TimeoutExpired:
            raise ToolError("TLC timed out after %ss: %s" % (timeout, r.cmd))
    r.wall = time.time() - t0
    r.exit = p.returncode
    shutil.rmtree(meta, ignore_errors=True)
    gen = dist = depth = 0
    replay = []
    viol = None
    with open(outp, errors="replace") as f:
        for line in f:
            line = line.rstrip("\n")
            m = REPLAY_RE.match(line)
            if m:
                replay.append(json.loads(tla_unescape(m.group(1))))
                continue
            m = re.match(r"^(\d+) states generated, (\d+) distinct states found", line)
            if m:
                gen, dist = int(m.group(1)), int(m.group(2))
            m = re.match(r"^The depth of the complete state graph search is (\d+)", line)
            if m:
                depth = int(m.group(1))
            if line.startswith("Error: Invariant") or line.startswith("Error: Action property") or \
               line.startswith("Error: Temporal propert") or line.startswith("Error: Deadlock") or \
               line.startswith("Error: Postcondition") or line.startswith("Error: The invariant of"):
                viol = line
            m = re.match(r"^Progress.*?(\d[\d,]*) states generated.*?(\d[\d,]*) distinct", line)
            if m and not dist:
                pass
    r.generated, r.distinct, r.depth, r.replay, r.violation = gen, dist, depth, replay, viol
    r.outfile = outp
    if simulate and gen == 0:
        # simulation mode prints a different summary
        txt = open(outp, errors="replace").read()
        m = re.search(r"The number of states generated: (\d+)", txt)
        if m:
            r.generated = r.distinct = int(m.group(1))
    if viol and not expect_violation:
        return r
    if p.returncode != 0 and not viol:
        tail = "".join(open(outp, errors="replace").readlines()[-30:])
        log(tail)
        raise ToolError("TLC failed (exit %s): %s" % (p.returncode, r.cmd))
    return r


# --------------------------------------------------------------------------------------------
# known findings

def load_findings():
    p = os.path.join(VERIF, "known_findings.json")
    if not os.path.exists(p):
        return {"findings": [], "fixed": []}
    return json.load(open(p))


def match_finding(pid, fail, findings):
    """A failure matches a known finding when every regex of the finding's `match` dict matches the
    corresponding field of the failure record."""
    for f in findings.get("findings", []):
        if f["property"] != pid:
            continue
        ok = True
        for field, rx in f["match"].items():
            val = fail.get(field)
            if not isinstance(val, str):
                val = json.dumps(val, sort_keys=True)
            if not re.search(rx, val):
                ok = False
                break
        if ok:
            return f
    return None


# --------------------------------------------------------------------------------------------
# result object shared by all checks

class Result:
    def __init__(self, pid, tier, level):
        self.pid = pid
        self.tier = tier
        self.level = level
        self.t0 = time.time()
        self.states = 0
        self.transitions = 0
        self.traces = 0
        self.evaluations = 0
        self.nontrivial = set()
        self.nontrivial_count = 0
        self.rule = ""
        self.samples = []
        self.cmds = []
        self.assumptions = []
        self.violations = []   # (detail, replay payload)
        self.known = {}
        self.exhaustive = None
        self.extra = {}
        self.findings = load_findings()
        self.wd = workdir(pid)

    def add_tlc(self, r):
        self.states += r.distinct
        self.transitions += r.generated
        self.cmds.append(r.cmd)

    def tlc_violation(self, r, what):
        self.violations.append({"detail": "TLC: %s (%s)" % (r.violation, what), "sig": "tlc:" + what,
                                "tlc_output": r.outfile})

    def add_failures(self, fails, stage):
        for f in fails:
            f = dict(f)
            f["stage"] = stage
            k = match_finding(self.pid, f, self.findings)
            if k is not None:
                self.known.setdefault(k["id"], [k, 0])[1] += 1
            else:
                self.violations.append(f)

    def sample(self, x):
        if len(self.samples) < 6:
            self.samples.append(x)

    def finish(self):
        wall = time.time() - self.t0
        cov = {
            "states": int(self.states),
            "transitions": int(self.transitions),
            "traces_validated_against_impl": int(self.traces),
            "evaluations": int(self.evaluations),
            "distinct_nontrivial": int(self.nontrivial_count or len(self.nontrivial)),
            "rule": self.rule,
            "samples": self.samples[:6] or ["(none)"],
            "checker_cmd": " ;; ".join(self.cmds[:4]),
            "known_findings_hit": {k: v[1] for k, v in self.known.items()},
        }
        if self.exhaustive is not None:
            cov["exhaustive"] = bool(self.exhaustive)
        cov.update(self.extra)
        ev = {
            "property_id": self.pid,
            "tier": self.tier,
            "seed": seed(),
            "level": self.level,
            "coverage": cov,
            "assumptions": self.assumptions,
            "wall_s": round(wall, 2),
            "violations": len(self.violations),
        }
        evdir = os.environ.get("VERIF_EVIDENCE", os.path.join(VERIF, "evidence"))   # bin/selftest redirects runs on scratch trees
        os.makedirs(evdir, exist_ok=True)
        with open(os.path.join(evdir, "%s.json" % self.pid), "w") as f:
            json.dump(ev, f, indent=1, sort_keys=True, ensure_ascii=False)
            f.write("\n")
        for k, (fd, n) in sorted(self.known.items()):
            print("KNOWN-FINDING: property=%s %s: %s (%d occurrences this run)" % (self.pid, k, fd["what"], n))
        if self.violations:
            import collections
            cnt = collections.Counter(str(v.get("sig")) for v in self.violations)
            with open(os.path.join(self.wd, "violation-signatures.json"), "w") as f:
                json.dump(cnt.most_common(), f, indent=1)
            # one replay file per distinct signature, at most 5 reported
            seen = set()
            n = 0
            for v in self.violations:
                sig = (v.get("sig"), v.get("variant"), v.get("stage"))
                if sig in seen:
                    continue
                seen.add(sig)
                n += 1
                path = os.path.join(self.wd, "replay-%d.json" % n)
                with open(path, "w") as f:
                    json.dump(v, f, indent=1, ensure_ascii=False)
                    f.write("\n")
                print("VIOLATION property=%s replay=%s" % (self.pid, path))
                print("  " + str(v.get("detail", ""))[:600])
                if n >= 5:
                    break
            print("%s: %d violating cases (%d distinct signatures)" % (self.pid, len(self.violations), len(seen)))
            return 1
        print("%s ok: tier=%s states=%d traces=%d evaluations=%d nontrivial=%d wall=%.1fs" % (
            self.pid, self.tier, self.states, self.traces, self.evaluations,
            cov["distinct_nontrivial"], wall))
        return 0


def run_vh_parallel(vh, args, cases, n=8, timeout=2400, env=None):
    """split the cases over n harness processes; merge failures and summaries"""
    from concurrent.futures import ThreadPoolExecutor
    if not cases:
        return [], {"executions": 0, "cases": 0, "failures": 0}, []
    n = max(1, min(n, len(cases)))
    chunks = [cases[i::n] for i in range(n)]
    with ThreadPoolExecutor(max_workers=n) as ex:
        rs = list(ex.map(lambda ch: run_vh(vh, args, ch, timeout=timeout, env=env), chunks))
    fails, other = [], []
    summ = {}
    for f, s, o in rs:
        fails += f
        other += o
        for k, v in s.items():
            if isinstance(v, bool):
                summ[k] = v
            elif isinstance(v, (int, float)):
                summ[k] = summ.get(k, 0) + v
    return fails, summ, other
