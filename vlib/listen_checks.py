"""C13, C14, C15 (specs/Pool.tla, specs/Listen.tla) and the multi-connection stages used by C06."""
from .common import *


def neighbours_stage(res, vh, thorough, faulty=False):
    pass
