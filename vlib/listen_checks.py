"""C13, C14, C15 (specs/Pool.tla, specs/Listen.tla) and the multi-connection stages used by C06."""
import json
import os

from .common import *
from .conn_checks import validate_trace

POOL_INVS = ["Bounded", "NoStranding", "CounterNonNegative", "DropAfterDrain", "NeverMoreThreadsThanMax"]


def pool_consts(initial, mx, njobs, fixed=True, le=False, emit=False, crash=0, panic="caught"):
    return {"Initial": initial, "Max": mx, "NJobs": njobs, "MaxWorkers": mx + 1,
            "CountAtEnqueue": fixed, "LeLimit": le, "Emit": emit, "MaxCrash": crash, "PanicMode": panic}


def pool_model(res, initial, mx, njobs, tag, workers=8, timeout=1500, crash=0):
    cfg = write_cfg(os.path.join(res.wd, "MC_Pool_%s.cfg" % tag), spec="PlainSpec",
                    constants=pool_consts(initial, mx, njobs, crash=crash), invariants=POOL_INVS)
    r = run_tlc("MC_Pool", cfg, res.wd, workers=workers, timeout=timeout, tag="pool-" + tag)
    res.add_tlc(r)
    if r.violation:
        res.tlc_violation(r, "MC_Pool %s" % tag)
    return r


def pool_liveness(res, initial, mx, njobs, tag, crash=0):
    cfg = write_cfg(os.path.join(res.wd, "MC_Pool_live_%s.cfg" % tag), spec="PlainFair",
                    constants=pool_consts(initial, mx, njobs, crash=crash), properties=["EventuallyServed"])
    r = run_tlc("MC_Pool", cfg, res.wd, workers=4, timeout=1500, tag="pool-live-" + tag)
    res.add_tlc(r)
    if r.violation:
        res.tlc_violation(r, "MC_Pool liveness %s" % tag)
    return r


def pool_behaviours(res, initial, mx, njobs, n, tag, crash=0):
    cfg = write_cfg(os.path.join(res.wd, "MC_Pool_emit_%s.cfg" % tag), spec="HSpec",
                    constants=pool_consts(initial, mx, njobs, emit=True, crash=crash), invariants=["Bounded", "NoStranding", "EmitCase"])
    r = run_tlc("MC_Pool", cfg, res.wd, workers=1, simulate="num=%d" % n, extra=["-depth", "200"], tag="pool-emit-" + tag)
    res.cmds.append(r.cmd)
    return r.replay


def check_C14(tier):
    res = Result("C14", tier, "model_checking")
    vh = build_harness()
    thorough = tier == "thorough"
    # (1) complete state-space enumeration of the pool model
    cfgs = [(1, 1, 3), (1, 2, 3), (2, 3, 4)] if not thorough else \
        [(1, 1, 3), (1, 2, 4), (2, 2, 4), (2, 3, 4), (3, 3, 4), (1, 3, 4), (3, 4, 5), (1, 4, 5), (2, 4, 5)]
    for (i, m, n) in cfgs:
        pool_model(res, i, m, n, "%d_%d_%d" % (i, m, n))
    # handlers that end by panicking (EnvCrash): for the pool a panic is just another way a connection ends
    for (i, m, n, c) in ([(1, 1, 3, 2), (1, 2, 4, 2)] if not thorough else [(1, 1, 3, 3), (1, 2, 4, 2), (2, 3, 4, 2), (1, 3, 5, 2)]):
        pool_model(res, i, m, n, "%d_%d_%d_crash%d" % (i, m, n, c), crash=c)
    pool_liveness(res, 2, 3, 4, "2_3_4")
    pool_liveness(res, 1, 2, 3, "1_2_3_crash", crash=2)
    if thorough:
        pool_liveness(res, 1, 4, 5, "1_4_5")
    # (2) spec -> impl with forced schedules: TLC behaviours stepped through the real pool gate by gate
    beh = []
    for (i, m, n) in ([(1, 1, 2), (1, 2, 3), (2, 3, 4)] if not thorough else [(1, 1, 2), (1, 2, 3), (2, 3, 4), (3, 4, 5), (1, 4, 5), (2, 2, 3)]):
        beh += pool_behaviours(res, i, m, n, 1500 if thorough else 250, "%d_%d_%d" % (i, m, n))
    for (i, m, n, c) in ([(1, 1, 3, 2), (1, 2, 3, 1)] if not thorough else [(1, 1, 3, 3), (1, 2, 4, 2), (2, 3, 4, 2)]):
        beh += pool_behaviours(res, i, m, n, 600 if thorough else 120, "%d_%d_%d_crash" % (i, m, n), crash=c)
    fails, summ, _ = run_vh(vh, ["pool"], beh, timeout=3000)
    res.add_failures(fails, "forced-schedule")
    res.traces += summ["executions"]
    res.evaluations += summ["executions"]
    res.extra["forced_schedule_steps"] = summ.get("steps", 0)
    res.nontrivial = {json.dumps([b["initial"], b["max"], b["njobs"], [(a["a"], a["w"]) for a in b["h"]]]) for b in beh}
    for b in beh[:2]:
        res.sample({"initial": b["initial"], "max": b["max"], "njobs": b["njobs"],
                    "schedule": ["%s(%s)" % (a["a"], a["w"]) for a in b["h"]]})
    # (3) observed from outside through listen() only (no hooks): concurrency counted by the handler itself
    fails, summ, _ = run_vh(vh, ["poolobs", "--tier=" + tier], [], timeout=3000)
    res.add_failures(fails, "listen-observer")
    res.traces += summ["executions"]
    res.evaluations += summ["executions"]
    # (4) impl -> spec: free-running random / sleep-injected schedules, probe log validated by Trace_Pool
    tr = os.path.join(res.wd, "pooltrace.ndjson")
    fails, summ, _ = run_vh(vh, ["pooltrace", "--runs=%d" % (2000 if thorough else 300), "--out=" + tr], [])
    res.traces += summ["executions"]
    res.evaluations += summ["executions"]
    res.extra["trace_events"] = summ.get("events", 0)
    validate_trace(res, "Trace_Pool", tr, "pooltrace",
                   consts={"Initial": 1, "Max": 4, "NJobs": 5, "MaxWorkers": 6, "CountAtEnqueue": True, "LeLimit": False, "MaxCrash": 0, "PanicMode": "caught"})
    res.rule = ("Pool.tla: all interleavings of acceptor (count, send, decide) and workers (recv, start, finish, un-count) with long-lived "
                "jobs for the listed (initial, max, jobs); behaviours sampled by TLC simulation are forced step by step onto the real pool "
                "through blocking probes; non-trivial = distinct schedules replayed")
    res.exhaustive = True
    res.assumptions = ["probes are add-only and compiled in by --cfg varlink_rust_verif; a probe is logged after its state change",
                       "log order of two dequeues may differ from channel order (Trace_Pool takes any queued message of the logged kind)"]
    return res.finish()


def multi_trace(res, vh, stage, clients, badpeers, conns, maxlen, transport, burst=0, initial=4):
    tr = os.path.join(res.wd, "mtrace-%s.ndjson" % stage)
    fails, summ, _ = run_vh(vh, ["conntrace", "--conns=%d" % conns, "--maxlen=%d" % maxlen, "--clients=%d" % clients,
                                 "--badpeers=%d" % badpeers, "--out=" + tr, "--transport=" + transport, "--burst=%d" % burst, "--initial=%d" % initial], [], timeout=1800)
    res.add_failures(fails, stage)
    from .conn_checks import BUGS_OFF
    validate_trace(res, "Trace_Conn", tr, stage, consts=BUGS_OFF)
    res.traces += summ["conns"]
    res.evaluations += summ["conns"]
    res.extra["requests_" + stage] = summ["requests"]
    return summ


def neighbours_stage(res, vh, thorough, faulty=False):
    """healthy clients (validated against Trace_Conn) beside idle / silent / mid-message-disconnecting / garbage-sending peers"""
    multi_trace(res, vh, "neighbours", 8, 8, 600 if thorough else 120, 10, "unix")


def multiconn_model(res, initial, mx, njobs, maxlen, tag, live=False):
    from .conn_checks import BUGS_OFF
    consts = dict(pool_consts(initial, mx, njobs), MaxLen=maxlen, BugSharedCursor=False, **BUGS_OFF)
    del consts["Emit"]
    if live:
        cfg = write_cfg(os.path.join(res.wd, "MC_MultiConn_live_%s.cfg" % tag), spec="FairNoClose", constants=consts,
                        properties=["IdleDoesNotBlock"])
    else:
        cfg = write_cfg(os.path.join(res.wd, "MC_MultiConn_%s.cfg" % tag), spec="Spec", constants=consts,
                        invariants=["PerConnRefines", "OwnRepliesOnly", "Bounded"])
    r = run_tlc("MC_MultiConn", cfg, res.wd, workers=8, timeout=2400, tag="multi-" + tag + ("-live" if live else ""))
    res.add_tlc(r)
    if r.violation:
        res.tlc_violation(r, "MC_MultiConn " + tag)
    return r


def check_C13(tier):
    res = Result("C13", tier, "model_checking")
    vh = build_harness()
    thorough = tier == "thorough"
    # (1) composition: N connections over the pool, each served with the reference semantics
    multiconn_model(res, 1, 2, 2, 2, "1_2_2")
    multiconn_model(res, 2, 2, 2, 1, "live", live=True)
    if thorough:
        multiconn_model(res, 2, 3, 3, 1, "2_3_3")
        multiconn_model(res, 1, 3, 3, 1, "live3", live=True)
    # (2) real clients: 2..16 / 2..64 concurrent, unix and tcp, with idle / silent / disconnecting / garbage peers
    plan = [(2, 0, 60, "unix"), (8, 5, 240, "unix"), (16, 10, 320, "unix"), (8, 5, 160, "tcp")]
    if thorough:
        plan = [(2, 0, 200, "unix"), (8, 4, 800, "unix"), (16, 8, 1600, "unix"), (32, 12, 1600, "unix"), (64, 16, 1920, "unix"),
                (8, 4, 800, "tcp"), (32, 8, 1280, "tcp"), (64, 16, 1280, "tcp")]
    nconn = 0
    for k, (clients, bad, conns, transport) in enumerate(plan):
        # the first connections of every client are made in lock step (IdleDoesNotBlock on the real pool: all clients connect at
        # once and nobody leaves before everybody was served), the rest free-running
        s = multi_trace(res, vh, "c%d-%s-%d" % (clients, transport, k), clients, bad, conns, 24 if thorough else 12, transport,
                        burst=4 if thorough else 2)
        nconn += s["conns"]
        if bad == 0 or k == 1:
            # lock-step rounds only, nothing else going on (no other connection comes or goes that could wake the pool up), pool
            # starting from one worker: a connection that is served only when another one ends or arrives has nobody to wait for
            s2 = multi_trace(res, vh, "burst%d-%s-%d" % (clients, transport, k), max(clients, 12), 0, max(clients, 12) * 3, 4, transport, burst=3, initial=1)
            nconn += s2["conns"]
        res.sample({"clients": clients, "misbehaving_peers": bad, "connections": s["conns"], "requests": s["requests"], "transport": transport})
    res.nontrivial_count = nconn
    res.rule = ("MultiConn.tla: N connections over the pool, every interleaving (TLC), PerConnRefines / OwnRepliesOnly / IdleDoesNotBlock; "
                "real server: concurrent clients each pipelining seeded random sequences with unique tokens, random segmentation and delays, "
                "beside idle, silent, mid-message-disconnecting and garbage-sending peers, the first rounds in lock step (all connect at once, "
                "nobody leaves before everybody has been served); each connection's reply stream validated by "
                "Trace_Conn for its own input (a foreign token is rejected); non-trivial = connections validated (each with its own random "
                "sequence)")
    res.exhaustive = False
    res.assumptions = ["real schedules are sampled (thousands of OS schedules by randomised timing), only the model is explored exhaustively",
                       "worker limit is above the number of simultaneous connections (the property's premise)"]
    return res.finish()


LISTEN_INVS = ["Bounded", "NoStranding", "TimeoutOnlyWhenIdleLongEnough", "NeverTimeoutWhileServing",
               "NoTimeoutWithStopAndZeroIdle", "OkOnlyByStop", "ReturnAfterDrain", "UnlinkAfterDrain"]


def listen_model(res, initial, mx, njobs, has_stop, idle, tag, live=False, crash=0):
    consts = dict(pool_consts(initial, mx, njobs, crash=crash), HasStop=has_stop, IdleTicks=idle, MaxTime=max(2 * idle + 2, 3))
    del consts["Emit"]
    if live:
        cfg = write_cfg(os.path.join(res.wd, "MC_Listen_live_%s.cfg" % tag), spec="LFairSpec", constants=consts,
                        properties=["ReturnsPromptly2"], constraints=["TimeBound"])
    else:
        cfg = write_cfg(os.path.join(res.wd, "MC_Listen_%s.cfg" % tag), spec="LSpec", constants=consts,
                        invariants=LISTEN_INVS, properties=["StopHonoured", "NoAcceptAfterReturn"], constraints=["TimeBound"])
    r = run_tlc("MC_Listen", cfg, res.wd, workers=8, timeout=1500, tag="listen-" + tag + ("-live" if live else ""))
    res.add_tlc(r)
    if r.violation:
        res.tlc_violation(r, "MC_Listen " + tag)
    return r


def run_parallel_vh(vh, sub, parts, wd, extra, prefix):
    """several vh processes side by side (the probe callback is process-global: one listen() per process)"""
    import subprocess
    procs = []
    for p in range(parts):
        out = os.path.join(wd, "%s-%d.ndjson" % (prefix, p))
        e = dict(os.environ, VERIF_WORK=WORK, VERIF_SEED=str(seed()))
        procs.append((out, subprocess.Popen([vh, sub, "--parts=%d" % parts, "--part=%d" % p, "--out=" + out] + extra,
                                            stdout=subprocess.PIPE, stderr=subprocess.DEVNULL, text=True, env=e)))
    fails, total, events = [], 0, 0
    traces = []
    for out, pr in procs:
        try:
            so, _ = pr.communicate(timeout=1200)
        except subprocess.TimeoutExpired:
            pr.kill()
            raise ToolError("vh %s timed out" % sub)
        summ = None
        for line in so.splitlines():
            if line.startswith("{"):
                j = json.loads(line)
                if j.get("fail"):
                    fails.append(j)
                elif j.get("summary"):
                    summ = j
        if summ is None:
            raise ToolError("vh %s produced no summary" % sub)
        total += summ["executions"]
        events += summ.get("events", 0)
        traces.append(out)
    return fails, total, events, traces


def check_C15(tier):
    res = Result("C15", tier, "model_checking")
    vh = build_harness()
    thorough = tier == "thorough"
    # (1) the loop in logical time on top of the pool model
    cfgs = [(1, 1, 2), (1, 2, 2)] if not thorough else [(1, 1, 2), (1, 2, 3), (2, 3, 3)]
    for (i, m, n) in cfgs:
        for has_stop in (False, True):
            for idle in (0, 1, 2):
                if not has_stop and idle == 0 and not thorough:
                    continue
                listen_model(res, i, m, n, has_stop, idle, "%d_%d_%d_%s_%d" % (i, m, n, "s" if has_stop else "n", idle))
    listen_model(res, 1, 2, 2, True, 1, "live", live=True)
    # connection handlers that end by panicking (LCrash): the loop's clauses hold as for any other way a connection ends
    listen_model(res, 1, 2, 2, True, 1, "crash_s1", crash=2)
    listen_model(res, 1, 1, 2, False, 1, "crash_n1", crash=1)
    listen_model(res, 1, 2, 2, True, 1, "crash_live", live=True, crash=1)
    # (2) the real listen() under the scenario driver; probes + driver events in one trace
    fails, total, events, traces = run_parallel_vh(vh, "listen", 8, res.wd, ["--reps=%d" % (4 if thorough else 1)], "listen-trace")
    res.add_failures(fails, "scenarios")
    res.traces += total
    res.evaluations += total
    res.extra["trace_events"] = events
    allp = os.path.join(res.wd, "listen-trace-all.ndjson")
    with open(allp, "w") as fo:
        for t in traces:
            fo.write(open(t).read())
    validate_trace(res, "Trace_Listen", allp, "listentrace",
                   consts={"Initial": 1, "Max": 4, "NJobs": 5, "MaxWorkers": 6, "CountAtEnqueue": True, "LeLimit": False, "MaxCrash": 0, "PanicMode": "caught",
                           "HasStop": True, "IdleTicks": 0})
    scen = set()
    for line in open(allp):
        j = json.loads(line)
        if j.get("ev") == "reset":
            scen.add((j["scenario"], j["has_stop"], j["idle_ms"], j["transport"]))
            res.sample(j)
    res.nontrivial = scen
    res.rule = ("Listen.tla (accept loop over Pool.tla, logical time) for idle 0/1/2 x stop flag absent/present x pool sizes x <= 2/3 "
                "connections with arbitrary arrival/finish points; real listen() driven through scenario templates (no connection, just "
                "before the deadline, long-lived across deadlines, closing at the deadline, stop before/while/after connections, streaming "
                "reply in flight, queued connection at stop) with seeded timing jitter on unix/abstract/tcp; non-trivial = distinct "
                "(scenario, stop, idle, transport)")
    res.exhaustive = True
    res.assumptions = ["wall clock enters only as lower bounds with 50 ms slack and generous upper bounds",
                       "signals interrupting select() are outside this property's quantifier and are not driven"]
    return res.finish()
