"""C13, C14, C15 (specs/Pool.tla, specs/Listen.tla) and the multi-connection stages used by C06."""
import json
import os

from .common import *
from .conn_checks import validate_trace

POOL_INVS = ["Bounded", "NoStranding", "CounterNonNegative", "DropAfterDrain", "NeverMoreThreadsThanMax"]


def pool_consts(initial, mx, njobs, fixed=True, le=False, emit=False):
    return {"Initial": initial, "Max": mx, "NJobs": njobs, "MaxWorkers": mx + 1,
            "CountAtEnqueue": fixed, "LeLimit": le, "Emit": emit}


def pool_model(res, initial, mx, njobs, tag, workers=8, timeout=1500):
    cfg = write_cfg(os.path.join(res.wd, "MC_Pool_%s.cfg" % tag), spec="PlainSpec",
                    constants=pool_consts(initial, mx, njobs), invariants=POOL_INVS)
    r = run_tlc("MC_Pool", cfg, res.wd, workers=workers, timeout=timeout, tag="pool-" + tag)
    res.add_tlc(r)
    if r.violation:
        res.tlc_violation(r, "MC_Pool %s" % tag)
    return r


def pool_liveness(res, initial, mx, njobs, tag):
    cfg = write_cfg(os.path.join(res.wd, "MC_Pool_live_%s.cfg" % tag), spec="PlainFair",
                    constants=pool_consts(initial, mx, njobs), properties=["EventuallyServed"])
    r = run_tlc("MC_Pool", cfg, res.wd, workers=4, timeout=1500, tag="pool-live-" + tag)
    res.add_tlc(r)
    if r.violation:
        res.tlc_violation(r, "MC_Pool liveness %s" % tag)
    return r


def pool_behaviours(res, initial, mx, njobs, n, tag):
    cfg = write_cfg(os.path.join(res.wd, "MC_Pool_emit_%s.cfg" % tag), spec="HSpec",
                    constants=pool_consts(initial, mx, njobs, emit=True), invariants=["Bounded", "NoStranding", "EmitCase"])
    r = run_tlc("MC_Pool", cfg, res.wd, workers=1, simulate="num=%d" % n, extra=["-depth", "200"], tag="pool-emit-" + tag)
    res.cmds.append(r.cmd)
    return r.replay


def check_C14(tier):
    res = Result("C14", tier, "model_checking")
    vh = build_harness()
    thorough = tier == "thorough"
    # (1) complete state-space enumeration of the pool model
    cfgs = [(1, 1, 3), (1, 2, 3), (2, 3, 4)] if not thorough else \
        [(1, 1, 3), (1, 2, 4), (2, 2, 4), (2, 3, 4), (3, 3, 4), (1, 3, 4), (3, 4, 5), (1, 4, 5), (2, 4, 5)]
    for (i, m, n) in cfgs:
        pool_model(res, i, m, n, "%d_%d_%d" % (i, m, n))
    pool_liveness(res, 2, 3, 4, "2_3_4")
    if thorough:
        pool_liveness(res, 1, 4, 5, "1_4_5")
    # (2) spec -> impl with forced schedules: TLC behaviours stepped through the real pool gate by gate
    beh = []
    for (i, m, n) in ([(1, 1, 2), (1, 2, 3), (2, 3, 4)] if not thorough else [(1, 1, 2), (1, 2, 3), (2, 3, 4), (3, 4, 5), (1, 4, 5), (2, 2, 3)]):
        beh += pool_behaviours(res, i, m, n, 1500 if thorough else 250, "%d_%d_%d" % (i, m, n))
    fails, summ, _ = run_vh(vh, ["pool"], beh, timeout=3000)
    res.add_failures(fails, "forced-schedule")
    res.traces += summ["executions"]
    res.evaluations += summ["executions"]
    res.extra["forced_schedule_steps"] = summ.get("steps", 0)
    res.nontrivial = {json.dumps([b["initial"], b["max"], b["njobs"], [(a["a"], a["w"]) for a in b["h"]]]) for b in beh}
    for b in beh[:2]:
        res.sample({"initial": b["initial"], "max": b["max"], "njobs": b["njobs"],
                    "schedule": ["%s(%s)" % (a["a"], a["w"]) for a in b["h"]]})
    # (3) observed from outside through listen() only (no hooks): concurrency counted by the handler itself
    fails, summ, _ = run_vh(vh, ["poolobs", "--tier=" + tier], [], timeout=3000)
    res.add_failures(fails, "listen-observer")
    res.traces += summ["executions"]
    res.evaluations += summ["executions"]
    # (4) impl -> spec: free-running random / sleep-injected schedules, probe log validated by Trace_Pool
    tr = os.path.join(res.wd, "pooltrace.ndjson")
    fails, summ, _ = run_vh(vh, ["pooltrace", "--runs=%d" % (2000 if thorough else 300), "--out=" + tr], [])
    res.traces += summ["executions"]
    res.evaluations += summ["executions"]
    res.extra["trace_events"] = summ.get("events", 0)
    validate_trace(res, "Trace_Pool", tr, "pooltrace",
                   consts={"Initial": 1, "Max": 4, "NJobs": 5, "MaxWorkers": 6, "CountAtEnqueue": True, "LeLimit": False})
    res.rule = ("Pool.tla: all interleavings of acceptor (count, send, decide) and workers (recv, start, finish, un-count) with long-lived "
                "jobs for the listed (initial, max, jobs); behaviours sampled by TLC simulation are forced step by step onto the real pool "
                "through blocking probes; non-trivial = distinct schedules replayed")
    res.exhaustive = True
    res.assumptions = ["probes are add-only and compiled in by --cfg varlink_rust_verif; a probe is logged after its state change",
                       "log order of two dequeues may differ from channel order (Trace_Pool takes any queued message of the logged kind)"]
    return res.finish()


def neighbours_stage(res, vh, thorough, faulty=False):
    pass
