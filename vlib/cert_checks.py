"""C19 (specs/Cert.tla)."""
import json
import os

from .common import *
from .conn_checks import validate_trace

CERT_BUGS_OFF = {"BugCheckBeforeAdvance": False, "BugIgnoreMode": False, "BugAcceptAnyValue": False}


def cert_model(res, clients, maxcalls, steps, tag, emit=False, simulate=None):
    consts = dict(CERT_BUGS_OFF, Clients=set(clients), MaxCalls=maxcalls, Emit=emit,
                  StepsUsed="@{" + ", ".join('"%s"' % s for s in steps) + "}")
    cfg = write_cfg(os.path.join(res.wd, "MC_Cert_%s.cfg" % tag), spec="MSpec", constants=consts,
                    invariants=["DeviationNeverSucceeds", "CanonicalSucceeds"] + (["EmitCase"] if emit else []))
    r = run_tlc("MC_Cert", cfg, res.wd, workers=1 if simulate else 8, timeout=1800, tag="cert-" + tag, simulate=simulate,
                extra=["-depth", str(maxcalls + 2)] if simulate else [])
    if simulate:
        res.cmds.append(r.cmd)
    else:
        res.add_tlc(r)
    if r.violation:
        res.tlc_violation(r, "MC_Cert " + tag)
    return r


ALL_STEPS = ["Start", "Test01", "Test02", "Test03", "Test04", "Test05", "Test06", "Test07", "Test08", "Test09", "Test10", "Test11", "End"]


def check_C19(tier):
    res = Result("C19", tier, "model_checking")
    vh = build_harness()
    bins = build_repo_bins(["varlink-certification"])
    env = {"VERIF_CERT_BIN": os.path.join(bins, "varlink-certification")}
    thorough = tier == "thorough"
    # (1) all interleavings of clients that may deviate at every call (bounded)
    cert_model(res, [1, 2], 4 if not thorough else 5, ALL_STEPS[:4], "c2")
    if thorough:
        cert_model(res, [1, 2, 3], 4, ALL_STEPS[:3], "c3")
    # (2) behaviours over the whole sequence (simulation) replayed on the real service + systematic deviations
    r = cert_model(res, [1, 2], 16, ALL_STEPS, "emit", emit=True, simulate="num=%d" % (1500 if thorough else 200))
    fails, summ, _ = run_vh(vh, ["cert", "--tier=" + tier], r.replay, timeout=3000, env=env)
    res.add_failures(fails, "cert-replay")
    res.traces += summ["executions"]
    res.evaluations += summ["executions"]
    for k in ("mutants_same", "mutants_different", "mutants_undecodable"):
        res.extra[k] = summ.get(k, 0)
    res.nontrivial_count = summ.get("mutants_different", 0) + summ.get("mutants_undecodable", 0) + len(r.replay)
    for t in r.replay[:2]:
        res.sample([[e["c"], e["step"], e["dev"], e["mode"], e["known"], e["out"]] for e in t])
    # (3) 1..16 concurrent clients with interleaved steps, validated by Trace_Cert
    for n in ([1, 4, 16] if not thorough else [1, 2, 4, 8, 16, 16, 16]):
        tr = os.path.join(res.wd, "certtrace-%d-%d.ndjson" % (n, res.traces))
        f2, s2, _ = run_vh(vh, ["certtrace", "--clients=%d" % n, "--out=" + tr], [], env=env, timeout=900)
        res.add_failures(f2, "certtrace")
        res.traces += s2["executions"]
        res.evaluations += s2["executions"]
        validate_trace(res, "Trace_Cert", tr, "certtrace%d" % n, consts=dict(CERT_BUGS_OFF, Clients=set(range(1, 17))))
    res.rule = ("Cert.tla: clients walking Start..End, at every call canonical / wrong value / undecodable x call modes x right step / next "
                "step / unknown id, all interleavings of 2..3 clients (TLC); on the real service: every single-field mutation of every "
                "step's canonical parameters (changed, removed, retyped), classified by an independent typed comparison, every wrong mode, "
                "out of order, unknown id, with the client's position checked afterwards; concurrent canonical + deviating clients; "
                "non-trivial = deviating mutants + replayed behaviours")
    res.exhaustive = True
    res.assumptions = ["a mutated request that still decodes to the canonical value at the IDL's types (1 for 1.0, null for an absent optional, an "
                       "extra member) is not a deviation: success or a certification error are both accepted for it",
                       "with a oneway call the service writes nothing (also for errors)"]
    return res.finish()
