"""C16 (specs/Addr.tla + ConnRef over every transport)."""
import json
import os

from .common import *
from .conn_checks import connref_cases, sig_of


def check_C16(tier):
    res = Result("C16", tier, "model_checking")
    vh = build_harness()
    thorough = tier == "thorough"
    # (1) decision tables: address classification, activation environment
    cases = []
    for which in ("addr", "env"):
        cfg = write_cfg(os.path.join(res.wd, "MC_Addr_%s.cfg" % which),
                        constants={"BugIgnorePid": False, "BugFirstFdAlways": False, "Which": which, "Emit": True},
                        invariants=["Laws", "EmitCase"])
        r = run_tlc("MC_Addr", cfg, res.wd, workers=2, tag="addr-" + which)
        res.add_tlc(r)
        if r.violation:
            res.tlc_violation(r, "MC_Addr " + which)
        cases += r.replay
    fails, summ, _ = run_vh(vh, ["addr"], cases, timeout=600)
    res.add_failures(fails, "tables")
    res.traces += summ["executions"]
    res.evaluations += summ["executions"]
    res.sample(cases[3])
    res.sample(cases[-7])
    # (2) every transport refines the same reference semantics
    seqs = connref_cases(res, "rep", 2, "rep2")
    if thorough:
        seqs += connref_cases(res, "rep", 3, "rep3")[::9]
    spawn = [c for c in seqs if c["end"] != "upgraded"]
    if not thorough:
        spawn = spawn[::2]
    for kind in ("unix", "unix-mode", "abstract", "tcp", "activate", "bridge",
                 "unix-lib", "unix-mode-lib", "abstract-lib", "tcp-lib", "tcp6-lib", "tcp-localhost-lib", "activated-nonblocking"):
        cs = seqs if kind in ("unix", "unix-mode", "abstract", "tcp") else spawn
        fails, summ, _ = run_vh(vh, ["transport", "--kind=" + kind], cs, timeout=900, hang_is_failure=True, death_is_failure=True)
        res.add_failures(fails, "transport-" + kind)
        res.traces += summ.get("executions", 0)
        res.evaluations += summ.get("executions", 0)
        res.extra["sequences_" + kind] = summ.get("executions", 0)
        if kind == "activate":
            res.extra["activate_listener_on_fd3"] = summ.get("listener_on_fd3", 0)
            res.extra["activate_listener_elsewhere"] = summ.get("listener_elsewhere", 0)
    res.nontrivial = {sig_of(c["reqs"]) for c in seqs if len(c["reqs"]) >= 1} | {json.dumps(c, sort_keys=True) for c in cases}
    res.rule = ("Addr.tla tables enumerated completely: 13 address schemes x with/without ';' parameters (client and server must agree on "
                "invalid-address), 132 consistent activation environments (LISTEN_FDS x LISTEN_PID x LISTEN_FDNAMES) probed in a child "
                "process whose pid is in LISTEN_PID; the ConnRef request sequences (representatives, length <= 2/3) over unix path, "
                "unix path;mode, abstract, tcp (raw client, and the library's own client for unix / unix;mode / abstract / tcp 127.0.0.1 / "
                "tcp [::1] / tcp localhost), with_activate (child dumps environment and descriptor 3) and with_bridge (stdio server); "
                "non-trivial = distinct sequences + table rows")
    res.exhaustive = True
    res.assumptions = ["tcp addresses with ';' parameters and activation environments naming more descriptors than passed are don't-care",
                       "upgraded sessions over spawned transports are covered by C18, not here"]
    return res.finish()
