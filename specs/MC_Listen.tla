----------------------------- MODULE MC_Listen -----------------------------
EXTENDS Listen
\* bound logical time so that the state space is finite: after MaxTime quanta no more Ticks
CONSTANT MaxTime
TimeBound == sinceLast <= MaxTime
=============================================================================
