---------------------------- MODULE Trace_Listen ----------------------------
(* Trace validation (impl -> spec) of varlink::listen: the trace interleaves  *)
(* the cfg-gated probes of the accept loop and of the pool with the events of *)
(* the scenario driver (a client arrives / closes, the stop flag is set,      *)
(* listen() has returned).  All events go through one lock, so the file order *)
(* is a total order; where a probe is logged apart from the instant its step  *)
(* takes effect the uncertainty is modelled explicitly:                        *)
(*  - the stop flag is "maybe" between set_stop_begin and set_stop_end;       *)
(*  - "accept_tick" is logged when accept() timed out, the counter is read a  *)
(*    little later: the outcome of the tick is resolved at the acceptor's     *)
(*    next event (ret_stop / ret_timeout / anything else = it went on), and   *)
(*    must be explainable by the values in between;                            *)
(*  - acc_send / drop_send / w_recv orderings as in Trace_Pool.               *)
(* Time is in milliseconds as logged (to_wait, wait_time).                     *)
EXTENDS Listen, Json, IOUtils

Rec == ndJsonDeserialize(IOEnv.TRACE)

VARIABLES l, sentEarly, dropEarly, unc, maxNow, idleNow, hasStopNow,
          stopSt,        \* "no" | "maybe" | "yes"
          pendTick,      \* an accept timeout whose outcome is not resolved yet
          tickCtr,       \* counter value at the accept_tick event
          tickWait,      \* wait_time logged with it
          tickStop,      \* state of the stop flag at that event
          closed,        \* connections whose client has closed
          ended,         \* connections whose server side has ended
          retKind        \* "" | "ok" | "timeout"

tlvars == <<l, sentEarly, dropEarly, unc, maxNow, idleNow, hasStopNow, stopSt, pendTick, tickCtr, tickWait, tickStop, closed, ended, retKind>>
tvars == <<allvars, tlvars>>

Ev == Rec[l]
IsEv(e) == l <= Len(Rec) /\ Ev.ev = e /\ l' = l + 1

TReset ==
  /\ IsEv("reset")
  /\ workers' = Ev.initial /\ ctr' = 0 /\ queue' = <<>>
  /\ wst' = [w \in Wids |-> IF w <= Ev.initial THEN "recv" ELSE "none"]
  /\ wjob' = [w \in Wids |-> 0]
  /\ apc' = "idle" /\ nextJob' = 1 /\ mayFinish' = {} /\ crash' = {} /\ served' = {} /\ doneJobs' = {}
  /\ lpc' = "accepting" /\ toWait' = Ev.idle_ms /\ stopFlag' = FALSE /\ backlog' = 0 /\ arrived' = 0
  /\ sinceLast' = 0 /\ unlinked' = FALSE
  /\ sentEarly' = FALSE /\ dropEarly' = FALSE /\ unc' = 0 /\ maxNow' = Ev.max /\ idleNow' = Ev.idle_ms
  /\ hasStopNow' = Ev.has_stop /\ stopSt' = "no" /\ pendTick' = FALSE /\ tickCtr' = 0 /\ tickWait' = 0 /\ tickStop' = "no"
  /\ closed' = 0 /\ ended' = 0 /\ retKind' = ""

(* ---------- driver events ---------- *)
TArrive ==
  /\ IsEv("arrive")
  /\ backlog' = backlog + 1 /\ arrived' = arrived + 1
  /\ UNCHANGED <<pvars, lpc, toWait, stopFlag, sinceLast, unlinked>>
  /\ UNCHANGED <<sentEarly, dropEarly, unc, maxNow, idleNow, hasStopNow, stopSt, pendTick, tickCtr, tickWait, tickStop, closed, ended, retKind>>

TClose ==
  /\ IsEv("close")
  /\ closed' = closed + 1
  /\ UNCHANGED <<allvars, sentEarly, dropEarly, unc, maxNow, idleNow, hasStopNow, stopSt, pendTick, tickCtr, tickWait, tickStop, ended, retKind>>

TStopBegin ==
  /\ IsEv("set_stop_begin") /\ hasStopNow /\ stopSt = "no"
  /\ stopSt' = "maybe"
  /\ UNCHANGED <<allvars, sentEarly, dropEarly, unc, maxNow, idleNow, hasStopNow, pendTick, tickCtr, tickWait, tickStop, closed, ended, retKind>>

TStopEnd ==
  /\ IsEv("set_stop_end") /\ stopSt = "maybe"
  /\ stopSt' = "yes" /\ stopFlag' = TRUE
  /\ UNCHANGED <<pvars, lpc, toWait, backlog, arrived, sinceLast, unlinked>>
  /\ UNCHANGED <<sentEarly, dropEarly, unc, maxNow, idleNow, hasStopNow, pendTick, tickCtr, tickWait, tickStop, closed, ended, retKind>>

(* ---------- resolving a pending tick: the loop went on ---------- *)
\* precondition and effect of "the tick did not return"
WentOn ==
  /\ \/ (hasStopNow /\ idleNow = 0)
     \/ toWait > tickWait
     \/ tickCtr > 0
ToWaitAfterOn ==
  IF hasStopNow /\ idleNow = 0 THEN toWait
  ELSE IF toWait <= tickWait THEN idleNow ELSE toWait - tickWait

\* stop definitely set before the tick began => it must have returned
StopDefinite == hasStopNow /\ tickStop = "yes"

(* ---------- acceptor events ---------- *)
TTick ==
  /\ IsEv("accept_tick")
  /\ lpc = "accepting"
  /\ IF pendTick
     THEN /\ ~StopDefinite /\ WentOn
          /\ Ev.a = ToWaitAfterOn            \* the countdown the code logs must be the model's
          /\ toWait' = Ev.a
     ELSE /\ Ev.a = toWait /\ UNCHANGED toWait
  /\ Ev.b = (IF hasStopNow THEN 100 ELSE idleNow)
  /\ pendTick' = TRUE /\ tickCtr' = ctr /\ tickWait' = Ev.b /\ tickStop' = stopSt
  /\ sinceLast' = sinceLast + Ev.b
  /\ UNCHANGED <<pvars, lpc, stopFlag, backlog, arrived, unlinked>>
  /\ UNCHANGED <<sentEarly, dropEarly, unc, maxNow, idleNow, hasStopNow, stopSt, closed, ended, retKind>>

TRetStop ==
  /\ IsEv("ret_stop")
  /\ lpc = "accepting" /\ pendTick /\ hasStopNow /\ stopSt \in {"maybe", "yes"}
  /\ lpc' = "retOk" /\ pendTick' = FALSE /\ retKind' = "ok" /\ stopFlag' = TRUE
  /\ UNCHANGED <<pvars, toWait, backlog, arrived, sinceLast, unlinked>>
  /\ UNCHANGED <<sentEarly, dropEarly, unc, maxNow, idleNow, hasStopNow, stopSt, tickCtr, tickWait, tickStop, closed, ended>>

TRetTimeout ==
  /\ IsEv("ret_timeout")
  /\ lpc = "accepting" /\ pendTick
  /\ ~StopDefinite
  /\ ~(hasStopNow /\ idleNow = 0)
  /\ toWait <= tickWait
  /\ ctr = 0                                \* never while a connection is queued, taken or running
  /\ lpc' = "retTimeout" /\ pendTick' = FALSE /\ retKind' = "timeout"
  /\ UNCHANGED <<pvars, toWait, stopFlag, backlog, arrived, sinceLast, unlinked>>
  /\ UNCHANGED <<sentEarly, dropEarly, unc, maxNow, idleNow, hasStopNow, stopSt, tickCtr, tickWait, tickStop, closed, ended>>

TAccepted ==
  /\ IsEv("accepted")
  /\ lpc = "accepting" /\ backlog > 0
  /\ (pendTick => (~StopDefinite /\ WentOn))
  /\ pendTick' = FALSE
  /\ backlog' = backlog - 1 /\ lpc' = "executing" /\ sinceLast' = 0
  /\ toWait' = idleNow
  /\ UNCHANGED <<pvars, stopFlag, arrived, unlinked>>
  /\ UNCHANGED <<sentEarly, dropEarly, unc, maxNow, idleNow, hasStopNow, stopSt, tickCtr, tickWait, tickStop, closed, ended, retKind>>

TAccCount ==
  /\ IsEv("acc_count")
  /\ lpc = "executing" /\ apc = "idle"
  /\ ctr' = ctr + 1 /\ ctr' = Ev.a /\ workers = Ev.b
  /\ apc' = "counted" /\ unc' = 0
  /\ UNCHANGED <<workers, queue, wst, wjob, nextJob, mayFinish, crash, served, doneJobs, lvars>>
  /\ UNCHANGED <<sentEarly, dropEarly, maxNow, idleNow, hasStopNow, stopSt, pendTick, tickCtr, tickWait, tickStop, closed, ended, retKind>>

TAccSend ==
  /\ IsEv("acc_send")
  /\ apc = "counted"
  /\ IF sentEarly THEN UNCHANGED queue ELSE queue' = Append(queue, nextJob)
  /\ apc' = "sent" /\ sentEarly' = FALSE
  /\ UNCHANGED <<workers, ctr, wst, wjob, nextJob, mayFinish, crash, served, doneJobs, lvars>>
  /\ UNCHANGED <<dropEarly, unc, maxNow, idleNow, hasStopNow, stopSt, pendTick, tickCtr, tickWait, tickStop, closed, ended, retKind>>

GrowWith(c) == c > workers /\ workers < maxNow

TAccDecide ==
  /\ IsEv("acc_decide")
  /\ apc = "sent" /\ lpc = "executing"
  /\ \E k \in 0..unc :
       IF GrowWith(ctr + k)
       THEN /\ Ev.b = workers + 1 /\ workers' = workers + 1
            /\ wst' = [wst EXCEPT ![workers + 1] = "recv"]
       ELSE /\ Ev.b = workers /\ UNCHANGED <<workers, wst>>
  /\ apc' = "idle" /\ nextJob' = nextJob + 1
  /\ lpc' = "accepting"
  /\ UNCHANGED <<ctr, queue, wjob, mayFinish, crash, served, doneJobs, toWait, stopFlag, backlog, arrived, sinceLast, unlinked>>
  /\ UNCHANGED <<sentEarly, dropEarly, unc, maxNow, idleNow, hasStopNow, stopSt, pendTick, tickCtr, tickWait, tickStop, closed, ended, retKind>>

(* ---------- worker events ---------- *)
TWRecv ==
  /\ IsEv("w_recv")
  /\ LET w == Ev.w IN
     /\ w \in 1..workers /\ wst[w] = "recv"
     /\ \/ /\ \E i \in 1..Len(queue) :
                /\ (Ev.a = 1) = (queue[i] # 0)
                /\ queue' = SubSeq(queue, 1, i - 1) \o SubSeq(queue, i + 1, Len(queue))
                /\ IF queue[i] = 0
                   THEN wst' = [wst EXCEPT ![w] = "dead"] /\ UNCHANGED wjob
                   ELSE wst' = [wst EXCEPT ![w] = "ready"] /\ wjob' = [wjob EXCEPT ![w] = queue[i]]
           /\ UNCHANGED <<sentEarly, dropEarly>>
        \/ /\ queue = <<>> /\ apc = "counted" /\ ~sentEarly /\ Ev.a = 1
           /\ wst' = [wst EXCEPT ![w] = "ready"] /\ wjob' = [wjob EXCEPT ![w] = nextJob]
           /\ sentEarly' = TRUE /\ UNCHANGED <<queue, dropEarly>>
        \/ /\ Ev.a = 0 /\ apc = "idle" /\ lpc \in {"retOk", "retTimeout"} /\ ~dropEarly
           /\ \A i \in 1..Len(queue) : queue[i] # 0
           /\ queue' = queue \o [i \in 1..(workers - 1) |-> 0]
           /\ wst' = [wst EXCEPT ![w] = "dead"] /\ UNCHANGED wjob
           /\ dropEarly' = TRUE /\ UNCHANGED sentEarly
  /\ UNCHANGED <<workers, ctr, apc, nextJob, mayFinish, crash, served, doneJobs, lvars>>
  /\ UNCHANGED <<unc, maxNow, idleNow, hasStopNow, stopSt, pendTick, tickCtr, tickWait, tickStop, closed, ended, retKind>>

TConnStart ==
  /\ IsEv("conn_start")
  /\ LET w == Ev.w IN
     /\ wst[w] = "ready"
     /\ wst' = [wst EXCEPT ![w] = "running"]
     /\ served' = served \cup {wjob[w]}
  /\ UNCHANGED <<workers, ctr, queue, wjob, apc, nextJob, mayFinish, crash, doneJobs, lvars>>
  /\ UNCHANGED <<sentEarly, dropEarly, unc, maxNow, idleNow, hasStopNow, stopSt, pendTick, tickCtr, tickWait, tickStop, closed, ended, retKind>>

\* a connection's server side ends only after its client has closed
TConnEnd ==
  /\ IsEv("conn_end")
  /\ LET w == Ev.w IN
     /\ wst[w] = "running"
     /\ ended < closed
     /\ ended' = ended + 1
     /\ wst' = [wst EXCEPT ![w] = "finished"]
     /\ doneJobs' = doneJobs \cup {wjob[w]}
     /\ crash' = crash /\ mayFinish' = mayFinish \cup {wjob[w]}
  /\ UNCHANGED <<workers, ctr, queue, wjob, apc, nextJob, served, lvars>>
  /\ UNCHANGED <<sentEarly, dropEarly, unc, maxNow, idleNow, hasStopNow, stopSt, pendTick, tickCtr, tickWait, tickStop, closed, retKind>>

TWUncount ==
  /\ IsEv("w_uncount")
  /\ LET w == Ev.w IN
     /\ wst[w] = "finished"
     /\ ctr' = ctr - 1 /\ ctr' = Ev.a
     /\ wst' = [wst EXCEPT ![w] = "recv"] /\ wjob' = [wjob EXCEPT ![w] = 0]
  /\ unc' = unc + 1
  /\ UNCHANGED <<workers, queue, apc, nextJob, mayFinish, crash, served, doneJobs, lvars>>
  /\ UNCHANGED <<sentEarly, dropEarly, maxNow, idleNow, hasStopNow, stopSt, pendTick, tickCtr, tickWait, tickStop, closed, ended, retKind>>

(* ---------- leaving listen() ---------- *)
TDropSend ==
  /\ IsEv("drop_send")
  /\ lpc \in {"retOk", "retTimeout"} /\ apc = "idle"
  /\ Ev.b = workers
  /\ IF dropEarly THEN UNCHANGED queue ELSE queue' = queue \o [i \in 1..workers |-> 0]
  /\ apc' = "dropping" /\ dropEarly' = FALSE
  /\ UNCHANGED <<workers, ctr, wst, wjob, nextJob, mayFinish, crash, served, doneJobs, lvars>>
  /\ UNCHANGED <<sentEarly, unc, maxNow, idleNow, hasStopNow, stopSt, pendTick, tickCtr, tickWait, tickStop, closed, ended, retKind>>

TDropJoined ==
  /\ IsEv("drop_joined")
  /\ apc = "dropping"
  /\ \A w \in 1..workers : wst[w] = "dead"
  /\ doneJobs = 1..(nextJob - 1)
  /\ apc' = "dropped"
  /\ UNCHANGED <<workers, ctr, queue, wst, wjob, nextJob, mayFinish, crash, served, doneJobs, lvars>>
  /\ UNCHANGED <<sentEarly, dropEarly, unc, maxNow, idleNow, hasStopNow, stopSt, pendTick, tickCtr, tickWait, tickStop, closed, ended, retKind>>

TUnlink ==
  /\ IsEv("unlink")
  /\ apc = "dropped" /\ ~unlinked
  /\ unlinked' = TRUE
  /\ UNCHANGED <<pvars, lpc, toWait, stopFlag, backlog, arrived, sinceLast>>
  /\ UNCHANGED <<sentEarly, dropEarly, unc, maxNow, idleNow, hasStopNow, stopSt, pendTick, tickCtr, tickWait, tickStop, closed, ended, retKind>>

\* the driver saw listen() return: value as decided by the loop, after the drain, socket file gone
TReturned ==
  /\ IsEv("returned")
  /\ apc = "dropped"
  /\ Ev.value = retKind
  /\ (Ev.is_path => (unlinked /\ ~Ev.exists))
  /\ doneJobs = 1..(nextJob - 1)
  /\ lpc' = "returned"
  /\ UNCHANGED <<pvars, toWait, stopFlag, backlog, arrived, sinceLast, unlinked>>
  /\ UNCHANGED <<sentEarly, dropEarly, unc, maxNow, idleNow, hasStopNow, stopSt, pendTick, tickCtr, tickWait, tickStop, closed, ended, retKind>>

TraceInit ==
  /\ LInit /\ l = 1 /\ sentEarly = FALSE /\ dropEarly = FALSE /\ unc = 0 /\ maxNow = Max /\ idleNow = IdleTicks
  /\ hasStopNow = HasStop /\ stopSt = "no" /\ pendTick = FALSE /\ tickCtr = 0 /\ tickWait = 0 /\ tickStop = "no"
  /\ closed = 0 /\ ended = 0 /\ retKind = ""

TraceNext ==
  \/ TReset \/ TArrive \/ TClose \/ TStopBegin \/ TStopEnd
  \/ TTick \/ TRetStop \/ TRetTimeout \/ TAccepted \/ TAccCount \/ TAccSend \/ TAccDecide
  \/ TWRecv \/ TConnStart \/ TConnEnd \/ TWUncount
  \/ TDropSend \/ TDropJoined \/ TUnlink \/ TReturned

TraceSpec == TraceInit /\ [][TraceNext]_tvars

TBounded == Cardinality(InService) <= maxNow /\ workers <= maxNow
TIdleLongEnough == (lpc = "retTimeout") => (sinceLast >= idleNow /\ idleNow > 0)
TNoTimeoutServing == (lpc = "retTimeout") => doneJobs = 1..(nextJob - 1)
TOkOnlyByStop == (retKind = "ok") => stopSt # "no"
TUnlinkAfterDrain == unlinked => (apc = "dropped" /\ doneJobs = 1..(nextJob - 1))
TraceInv == TBounded /\ TIdleLongEnough /\ TNoTimeoutServing /\ TOkOnlyByStop /\ TUnlinkAfterDrain /\ ctr >= 0

TraceAccepted ==
  LET d == TLCGet("stats").diameter IN
  IF d - 1 = Len(Rec) THEN TRUE
  ELSE Print(<<"TRACE-REJECTED at event", d, Rec[d]>>, FALSE)
=============================================================================
