----------------------------- MODULE Trace_Cert -----------------------------
(* Trace validation for the certification service: calls of concurrently running clients (each under its own   *)
(* client id) and the outcome class each observed; every event must be the Call step of Cert.tla for that     *)
(* client's current position, with exactly the outcome the specification gives.                                 *)
EXTENDS Cert, Json, IOUtils

Rec == ndJsonDeserialize(IOEnv.TRACE)
VARIABLE l
tvars == <<cevars, l>>

TCall ==
  /\ l <= Len(Rec)
  /\ LET e == Rec[l] IN
     /\ e.c \in Clients
     /\ Outcome(e.c, e.step, e.known, e.dev, e.mode) = e.out
     /\ Call(e.c, e.step, e.known, e.dev, e.mode)
  /\ l' = l + 1

TraceInit == CeInit /\ l = 1
TraceNext == TCall
TraceSpec == TraceInit /\ [][TraceNext]_tvars
TraceInv == DeviationNeverSucceeds
TraceAccepted ==
  LET d == TLCGet("stats").diameter IN
  IF d - 1 = Len(Rec) THEN TRUE
  ELSE Print(<<"TRACE-REJECTED at event", d, Rec[d]>>, FALSE)
=============================================================================
