--------------------------- MODULE MC_IdlTokens ---------------------------
(* Token strings with an error budget of one: every valid base sentence, every prefix of it (truncated    *)
(* definitions), and every sentence obtained by deleting, inserting, substituting one token or swapping two *)
(* adjacent tokens.  The verdict comes from Idl!Accepts.                                                     *)
EXTENDS Idl, Json

CONSTANTS Emit, BaseSet
VARIABLE toks

H == <<"interface", "IFACE", "NL">>
M0 == <<"method", "Name", "(", ")", "->", "(", ")">>
Bases ==
  { H \o M0,
    H \o <<"type", "Name", "(", "fld", ":", "int", ")">>,
    H \o <<"type", "Name", "(", "fld", ",", "fld", ")">>,
    H \o <<"error", "Name", "(", "fld", ":", "?", "[]", "string", ",", "fld", ":", "[string]", "Name", ")">>,
    H \o <<"method", "Name", "(", "fld", ":", "(", "fld", ":", "bool", ")", ")", "->", "(", "fld", ":", "(", "fld", ",", "fld", ")", ")">>,
    H \o M0 \o <<"NL">> \o <<"type", "Name", "(", "fld", ":", "[]", "?", "float", ")">> \o <<"NL", "NL", "error", "Name", "(", ")", "NL">>,
    <<"NL">> \o H \o <<"NL">> \o <<"method", "Name", "(", "NL", "fld", ":", "object", ",", "NL", "fld", ":", "?", "Name", "NL", ")", "NL", "->", "NL", "(", ")">>
  }
SmallBases == { H \o M0, H \o <<"type", "Name", "(", "fld", ":", "?", "[]", "int", ",", "fld", ":", "(", "fld", ",", "fld", ")", ")">> }

TheBases == IF BaseSet = "small" THEN SmallBases ELSE Bases

Del(s, i) == SubSeq(s, 1, i - 1) \o SubSeq(s, i + 1, Len(s))
Ins(s, i, k) == SubSeq(s, 1, i - 1) \o <<k>> \o SubSeq(s, i, Len(s))
Sub(s, i, k) == [s EXCEPT ![i] = k]
Swap(s, i) == [s EXCEPT ![i] = s[i + 1], ![i + 1] = s[i]]

Mutants(s) ==
  {s}
    \cup {SubSeq(s, 1, i) : i \in 0..Len(s)}
    \cup {Del(s, i) : i \in 1..Len(s)}
    \cup {Ins(s, i, k) : i \in 1..(Len(s) + 1), k \in Tokens}
    \cup {Sub(s, i, k) : i \in 1..Len(s), k \in Tokens}
    \cup {Swap(s, i) : i \in 1..(Len(s) - 1)}

Init == toks \in UNION {Mutants(b) : b \in TheBases}
Next == UNCHANGED toks
Spec == Init /\ [][Next]_toks

BasesAccepted == \A b \in TheBases : Accepts(b)
EmitCase == Emit => PrintT(<<"REPLAY", ToJson([toks |-> toks, accept |-> Accepts(toks)])>>)
=============================================================================
