----------------------------- MODULE MC_Client -----------------------------
EXTENDS Client, Json

CONSTANTS MaxOps, ScriptSet, Emit,
          WithUpgrade   \* TRUE: upgrade() is one of the ways to send (a plain call whose request announces the upgrade)

Cont == Reply(TRUE, "", "ok")

\* upgrade() is a plain call whose request announces the upgrade
Modes == {"call", "more", "oneway"} \cup (IF WithUpgrade THEN {"upgrade"} ELSE {})

AllReplies == {Reply(c, e, p) : c \in BOOLEAN, e \in ErrNames \cup {""}, p \in Pars}

Finals ==
  CASE ScriptSet = "small" -> {Reply(FALSE, "", "ok"), Reply(FALSE, "InvalidParameter", "ok"), Reply(FALSE, "Custom", "ok")}
    [] ScriptSet = "finals" -> {Reply(FALSE, e, p) : e \in ErrNames \cup {""}, p \in Pars}
    [] ScriptSet = "replies" -> AllReplies
    [] ScriptSet = "streams" -> {Reply(FALSE, "", "ok"), Reply(FALSE, "Custom", "missing"), Reply(FALSE, "", "illtyped")}
    [] ScriptSet = "oneway" -> {Reply(FALSE, "", "ok")}

Ks == CASE ScriptSet = "small" -> {0, 2}
        [] ScriptSet = "finals" -> {0, 1}
        [] ScriptSet = "replies" -> {0}
        [] ScriptSet = "streams" -> 0..3
        [] ScriptSet = "oneway" -> {0}

Scripts == {[i \in 1..(k + 1) |-> IF i <= k THEN Cont ELSE f] : k \in Ks, f \in Finals}

\* a MethodCall object is owned by one thread (Rust: &mut self); objects are dealt round-robin to the threads and
\* taken into use in order (symmetry)
Owner(c) == ((c - 1) % Cardinality(Threads)) + 1
MayUse(c) == \A d \in Objs : (d < c /\ Owner(d) = Owner(c)) => ~obj[d].armed

Step ==
  \/ \E t \in Threads, c \in Objs, m \in Modes, s \in Scripts :
        /\ MayUse(c) /\ Owner(c) = t /\ Len(hist) < MaxOps
        /\ ((m = "oneway" \/ ~obj[c].armed \/ ~ConnFree) => s = CHOOSE x \in Scripts : TRUE)   \* script irrelevant: nothing is answered
        /\ Send(t, c, m, s)
  \/ \E t \in Threads, c \in Objs : ~obj[c].armed /\ Owner(c) = t /\ Len(hist) < MaxOps /\ Next(t, c)
  \/ \E t \in Threads : RecvRead(t) \/ RecvReturn(t)

Spec == CInit /\ [][Step]_cvars

Quiet == \A t \in Threads : tpc[t] = <<"idle">>

\* iteration shape (C05 client): what object c has been handed so far are the outcomes of a prefix of the replies
\* the service sent for it, in order; and the iterator reports the end only directly after a reply without `continues`
Consumed(c) == SelectSeq(hist, LAMBDA e : e.c = c /\ e.op \in {"next", "call"} /\ e.res # <<"None">> /\ e.res # <<"Err", "IteratorOldReply">>)
OpsOf(c) == SelectSeq(hist, LAMBDA e : e.c = c /\ e.op \in {"next", "call"})
IterationShape ==
  \A c \in Objs :
     /\ Len(Consumed(c)) <= Len(oscript[c])
     /\ \A i \in 1..Len(Consumed(c)) : Consumed(c)[i].res = Outcome(oscript[c][i])
     /\ \A p \in 1..Len(OpsOf(c)) :
          OpsOf(c)[p].res = <<"None">> =>
             LET n == Len(SelectSeq(SubSeq(OpsOf(c), 1, p), LAMBDA e : e.res # <<"None">> /\ e.res # <<"Err", "IteratorOldReply">>))
             IN  n = 0 \/ ~oscript[c][n].cont

EmitCase ==
  (Emit /\ Quiet /\ Len(hist) = MaxOps) =>
     PrintT(<<"REPLAY", ToJson([h |-> hist, wire |-> wire, free |-> free])>>)
=============================================================================
