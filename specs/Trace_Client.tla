---------------------------- MODULE Trace_Client ----------------------------
(* Trace validation (impl -> spec) for threads sharing one client connection. *)
(* No hooks: the driver logs, per thread, every completed API call with       *)
(* global sequence numbers taken before (start) and after (end) the call, its *)
(* arguments and its abstract result; the scripted service logs the order in  *)
(* which requests arrived.  A run is accepted iff there is an interleaving of *)
(* the specification's steps (Send / RecvRead / RecvReturn / Next) that       *)
(*   - respects each thread's program order,                                   *)
(*   - respects real time (an operation that ended before another started is  *)
(*     linearised before it),                                                  *)
(*   - gives every operation exactly the result that was observed, and        *)
(*   - puts the requests on the wire in the order the service saw them.       *)
(* Rejection = some thread observed something no schedule of the spec allows  *)
(* (two calls owning the stream, a reply delivered to the wrong call, a       *)
(* refused call that wrote bytes, ...).                                        *)
EXTENDS Client, Json, IOUtils

Rec == ndJsonDeserialize(IOEnv.TRACE)    \* one record per run: [threads |-> <<ops of thread 1, ...>>, wire |-> <<...>>]

VARIABLES run, idx

tvars == <<cvars, run, idx>>

Log(t) == Rec[run].threads[t]
NThreads == Len(Rec[run].threads)
Cur(t) == Log(t)[idx[t]]
Pending(t) == idx[t] <= Len(Log(t))

\* real-time order: every operation of another thread that ended before mine started is already linearised
MayStart(t) ==
  \A u \in 1..NThreads : u # t =>
     \A k \in idx[u]..Len(Log(u)) : Log(u)[k].end > Cur(t).start

Grew == Len(hist') = Len(hist) + 1
LastRes == hist'[Len(hist')].res

Advance(t) ==
  IF Grew THEN /\ LastRes = Cur(t).res
               /\ idx' = [idx EXCEPT ![t] = @ + 1]
          ELSE UNCHANGED idx

\* the requests went onto the wire in the order the service saw them: checked as the wire grows (prunes the search early)
WirePrefix ==
  /\ Len(wire) <= Len(Rec[run].wire)
  /\ \A i \in 1..Len(wire) : wire[i].c = Rec[run].wire[i].c /\ wire[i].mode = Rec[run].wire[i].mode

TStep(t) ==
  /\ run <= Len(Rec) /\ t \in 1..NThreads /\ Pending(t)
  /\ IF tpc[t] = <<"idle">>
     THEN /\ MayStart(t)
          /\ LET e == Cur(t) IN
             IF e.op = "next" THEN Next(t, e.c) ELSE Send(t, e.c, e.mode, e.script)
     ELSE RecvRead(t) \/ RecvReturn(t)
  /\ Advance(t)
  /\ UNCHANGED run
  /\ WirePrefix'

WireOk == [i \in 1..Len(wire) |-> <<wire[i].c, wire[i].mode>>] = [i \in 1..Len(Rec[run].wire) |-> <<Rec[run].wire[i].c, Rec[run].wire[i].mode>>]

\* all operations of the run explained: start the next run from the initial state
TNextRun ==
  /\ run <= Len(Rec)
  /\ \A t \in 1..NThreads : ~Pending(t) /\ tpc[t] = <<"idle">>
  /\ WireOk
  /\ run' = run + 1
  /\ idx' = [t \in Threads |-> 1]
  /\ free' = TRUE /\ readerGone' = FALSE
  /\ obj' = [c \in Objs |-> [armed |-> TRUE, owns |-> FALSE, cont |-> FALSE]]
  /\ pipe' = <<>> /\ wire' = <<>> /\ tpc' = [t \in Threads |-> <<"idle">>]
  /\ delivered' = <<>> /\ hist' = <<>> /\ oscript' = [c \in Objs |-> <<>>]

TraceInit == CInit /\ run = 1 /\ idx = [t \in Threads |-> 1]
TraceNext == TNextRun \/ \E t \in Threads : TStep(t)
TraceSpec == TraceInit /\ [][TraceNext]_tvars

\* hist and delivered only record the past: two candidate linearisations that agree on everything else have the same future.
\* (a misdelivery changes the view, so the state that contains it is never merged away before the invariant sees it)
TView == <<free, readerGone, obj, pipe, wire, tpc, oscript, run, idx,
           {i \in 1..Len(delivered) : delivered[i].to # delivered[i].tag} # {}>>

\* properties on every state of every candidate linearisation
TraceInv == OneOwner /\ ReplyToRequester /\ SendOnce

\* high-water mark of the runs explained (needs -workers 1)
Mark == TLCSet(1, IF TLCGet(1) < run THEN run ELSE TLCGet(1))
ASSUME TLCSet(1, 0)
TraceAccepted ==
  IF TLCGet(1) = Len(Rec) + 1 THEN TRUE
  ELSE Print(<<"TRACE-REJECTED: no linearisation for run", TLCGet(1), Rec[IF TLCGet(1) = 0 THEN 1 ELSE TLCGet(1)]>>, FALSE)
=============================================================================
