------------------------------- MODULE Bridge -------------------------------
(***************************************************************************)
(* `varlink bridge` (varlink-cli/src/proxy.rs, watchclose_epoll.rs): the    *)
(* INTENDED behaviour, shaped like the code.                               *)
(*                                                                         *)
(* Resolver mode (proxy::handle), per request read from the client:        *)
(*   ReadReq      next NUL-terminated request (stdin EOF => stop)          *)
(*   Route        service-info queries go to the configured resolver;      *)
(*                the target address is cached per interface name           *)
(*                otherwise resolve the interface (only when it changes)   *)
(*   Connect      a fresh connection to the target for every request       *)
(*   Forward      write the request to the target                          *)
(*   Relay        copy replies to the client until the final one; nothing  *)
(*                for oneway; after an upgrade request: reply, then raw    *)
(*                copying in both directions, starting with what was read  *)
(*                ahead from the client                                     *)
(* Direct modes (--connect / --activate / --bridge, proxy::handle_connect):*)
(*   two copy loops; whatever ends first stops the bridge                  *)
(*                                                                         *)
(* Services are black boxes that answer per ConnRef!Serve.  The named      *)
(* deviations of the code as found are BUG_* constants; each breaks one of *)
(* the properties below.                                                   *)
(***************************************************************************)
EXTENDS Naturals, Sequences, FiniteSets, TLC

CONSTANTS
  BugGetInfoHardcoded,   \* GetInfo goes to a fixed address instead of the configured resolver; the bridge then stops
  BugReadAheadToClient,  \* bytes read ahead of an upgrade are written back to the client
  BugDropReplyOnClose,   \* a reply that arrives together with the service's hang-up is dropped, exit 1
  BugPanicNoChild,       \* --connect: the child watcher unwraps a child that does not exist
  BugAbortAfterUpgrade,  \* the upgraded session ends with an abort (descriptor closed twice)
  BugStaleCacheAfterInfo, \* a service-info query redirects the target address but leaves the cached interface name alone
  BugIgnoreServiceHangup, \* upgraded session: the bridge goes on waiting for the client after the service has hung up
  BugDropServiceReadAhead \* what the service sent right behind its upgrade reply (read ahead with it) is thrown away

(* request kinds the client sends; svc: which service owns the interface ("A", "B") or "R" for service-info queries *)
\* "descr": org.varlink.service.GetInterfaceDescription for the interface of service svc (goes to the service that has it)
Kinds == {"ok", "stream", "oneway", "error", "closing", "upgrade", "getinfo", "descr"}
Req(k, svc) == [k |-> k, svc |-> svc]

\* replies a service sends for one request: sequence of [cont]; closes: the service closes its connection afterwards
Replies(r) ==
  CASE r.k = "ok" -> <<FALSE>>
    [] r.k = "stream" -> <<TRUE, TRUE, FALSE>>
    [] r.k = "oneway" -> <<>>
    [] r.k = "error" -> <<FALSE>>
    [] r.k = "closing" -> <<FALSE>>          \* e.g. ill-typed parameters: InvalidParameter, then the service hangs up
    [] r.k = "upgrade" -> <<FALSE>>
    [] r.k = "getinfo" -> <<FALSE>>
    [] r.k = "descr" -> <<FALSE>>
ServiceCloses(r) == r.k = "closing"

VARIABLES
  mode,        \* "resolver" | "direct"
  reqs,        \* what the client sends
  payload,     \* number of raw payload atoms the client sends after an upgrade request
  pipelined,   \* the client writes everything at once (the bridge reads ahead)
  abandon,     \* the client closes its side right after its last request, without waiting for the replies
  upEnd,       \* who ends an upgraded session: "client" (closes its side after the payload) or "service" (says goodbye and hangs up)
  bye,         \* the service's goodbye reached the client (0 / 1)
  greet,       \* the upgraded service speaks first: raw bytes right behind the reply that confirms the upgrade
  hello,       \* that greeting reached the client (0 / 1)
  i,           \* requests consumed by the bridge
  pc,          \* "read" | "route" | "relay" | "raw" | "done"
  out,         \* replies forwarded to the client: [req, n] = n-th reply of request req
  got,         \* got[s]: requests service s received (indices)
  lastIface,   \* resolver mode: the interface the cached target address was resolved for ("none" initially)
  address,     \* resolver mode: the cached target address (named by the service behind it)
  rawToSvc,    \* payload atoms delivered to the upgraded service
  rawToClient, \* payload atoms (wrongly) written to the client
  exit         \* "running" | "ok" | "error" | "panic" | "abort"

bvars == <<mode, reqs, payload, pipelined, abandon, upEnd, bye, greet, hello, i, pc, out, got, lastIface, address, rawToSvc, rawToClient, exit>>

Services == {"A", "B", "R"}

BInit ==
  /\ i = 0 /\ pc = "read" /\ out = <<>> /\ got = [s \in Services |-> <<>>]
  /\ lastIface = "none" /\ address = "none"
  /\ rawToSvc = 0 /\ rawToClient = 0 /\ exit = "running" /\ bye = 0 /\ hello = 0

Cur == reqs[i]

ReadReq ==
  /\ pc = "read" /\ exit = "running"
  /\ IF i < Len(reqs)
     THEN /\ i' = i + 1 /\ pc' = "route" /\ UNCHANGED exit
     ELSE \* the client closed its side: the bridge stops, reporting success
          /\ pc' = "done" /\ exit' = "ok" /\ UNCHANGED i
  /\ UNCHANGED <<mode, reqs, payload, pipelined, abandon, upEnd, bye, greet, hello, out, got, lastIface, address, rawToSvc, rawToClient>>

\* route + connect + forward in one step (each request on a fresh connection to its target).  The target address is
\* cached: it is looked up again only when the interface differs from the one of the previous request (a service-info
\* query counts as the resolver's interface).
RouteForward ==
  /\ pc = "route"
  /\ IF Cur.k = "getinfo" /\ BugGetInfoHardcoded
     THEN \* nobody listens at the fixed address: InterfaceNotFound to the client, the bridge stops
          /\ out' = Append(out, [req |-> i, n |-> 0, bogus |-> TRUE])
          /\ pc' = "done" /\ exit' = "ok"
          /\ UNCHANGED <<got, lastIface, address>>
     ELSE /\ IF BugStaleCacheAfterInfo /\ Cur.svc = "R"
             THEN address' = "R" /\ UNCHANGED lastIface
             ELSE IF Cur.svc # lastIface
                  THEN address' = Cur.svc /\ lastIface' = Cur.svc
                  ELSE UNCHANGED <<address, lastIface>>
          /\ got' = [got EXCEPT ![address'] = Append(@, i)]
          /\ pc' = "relay" /\ UNCHANGED <<out, exit>>
  /\ UNCHANGED <<mode, reqs, payload, pipelined, abandon, upEnd, bye, greet, hello, i, rawToSvc, rawToClient>>

Relay ==
  /\ pc = "relay"
  /\ LET rs == Replies(Cur)
         wrong == address # Cur.svc   \* the request went to a service that does not have the interface: InterfaceNotFound
         fwd == IF wrong THEN IF Cur.k = "oneway" THEN <<>> ELSE <<[req |-> i, n |-> 0, bogus |-> TRUE]>>
                ELSE IF ServiceCloses(Cur) /\ BugDropReplyOnClose THEN <<>> ELSE [n \in 1..Len(rs) |-> [req |-> i, n |-> n, bogus |-> FALSE]]
     IN /\ out' = out \o fwd
        /\ IF ~wrong /\ ServiceCloses(Cur) /\ BugDropReplyOnClose
           THEN pc' = "done" /\ exit' = "error"
           ELSE IF ~wrong /\ Cur.k = "upgrade" THEN pc' = "raw" /\ UNCHANGED exit
           ELSE pc' = "read" /\ UNCHANGED exit
  /\ UNCHANGED <<mode, reqs, payload, pipelined, abandon, upEnd, bye, greet, hello, i, got, lastIface, address, rawToSvc, rawToClient>>

\* upgraded: everything the client sends from now on belongs to the service, starting with what was read ahead
Raw ==
  /\ pc = "raw"
  /\ IF pipelined /\ BugReadAheadToClient
     THEN rawToClient' = payload /\ rawToSvc' = 0
     ELSE rawToSvc' = payload /\ rawToClient' = 0
  /\ IF upEnd = "service"
     THEN \* the service answers the payload with a goodbye and hangs up; the client is still there
          /\ bye' = 1
          /\ IF BugIgnoreServiceHangup THEN pc' = "stuck" /\ UNCHANGED exit
             ELSE pc' = "done" /\ exit' = IF BugAbortAfterUpgrade THEN "abort" ELSE "ok"
     ELSE /\ bye' = 0 /\ pc' = "done"
          /\ exit' = IF BugAbortAfterUpgrade THEN "abort" ELSE "ok"
  /\ hello' = IF greet /\ ~BugDropServiceReadAhead THEN 1 ELSE 0
  /\ UNCHANGED <<mode, reqs, payload, pipelined, abandon, upEnd, greet, i, out, got, lastIface, address>>

(* direct mode: a plain pipe to one service *)
Direct ==
  /\ mode = "direct" /\ pc = "read" /\ exit = "running"
  /\ LET all == [k \in 1..Len(reqs) |-> k] IN
     /\ got' = [got EXCEPT !["A"] = all]
     /\ out' = \* replies of every request, in order (the service closes after a "closing" request)
          LET RECURSIVE Acc(_)
              Acc(k) == IF k > Len(reqs) THEN <<>>
                        ELSE [n \in 1..Len(Replies(reqs[k])) |-> [req |-> k, n |-> n, bogus |-> FALSE]]
                               \o (IF ServiceCloses(reqs[k]) THEN <<>> ELSE Acc(k + 1))
          IN Acc(1)
  /\ i' = Len(reqs) /\ pc' = "done"
  /\ exit' = IF BugPanicNoChild THEN "panic" ELSE "ok"
  \* the payload only has somewhere to go if the connection survived up to the upgrade request
  /\ rawToSvc' = IF \E k \in 1..Len(reqs) : ServiceCloses(reqs[k]) THEN 0 ELSE payload
  /\ UNCHANGED <<mode, reqs, payload, pipelined, abandon, upEnd, bye, greet, hello, rawToClient, lastIface, address>>

\* the client has gone (it closed its side right after the last request): wherever the bridge notices, it stops; a side that
\* hangs up is not an error
ClientGone ==
  /\ abandon /\ mode = "resolver" /\ pc \in {"read", "route", "relay"} /\ exit = "running"
  /\ pc' = "done" /\ exit' = "ok"
  /\ UNCHANGED <<mode, reqs, payload, pipelined, abandon, upEnd, bye, greet, hello, i, out, got, lastIface, address, rawToSvc, rawToClient>>

BNext == (mode = "resolver" /\ (ReadReq \/ RouteForward \/ Relay \/ Raw \/ ClientGone)) \/ Direct
BSpec == BInit /\ [][BNext]_bvars

---------------------------------------------------------------------------
(* Properties (C18) *)

\* what a client talking to the services directly (one fresh connection per request, as the bridge does) would see
RECURSIVE DirectView(_)
DirectView(k) ==
  IF k > Len(reqs) THEN <<>>
  ELSE [n \in 1..Len(Replies(reqs[k])) |-> [req |-> k, n |-> n, bogus |-> FALSE]]
         \o (IF reqs[k].k = "upgrade" THEN <<>> ELSE DirectView(k + 1))

Done == pc = "done"

Transparent == (Done /\ mode = "resolver" /\ ~abandon) => out = DirectView(1)
\* a client that left early has been sent a prefix of that conversation, nothing else
PrefixWhenAbandoned ==
  (Done /\ mode = "resolver" /\ abandon) => (Len(out) <= Len(DirectView(1)) /\ out = SubSeq(DirectView(1), 1, Len(out)))

\* every service received exactly the requests addressed to it, in order (the bridge switches targets)
SwitchesTargets ==
  (Done /\ mode = "resolver" /\ ~abandon) =>
     \A s \in Services : got[s] = SelectSeq([k \in 1..i |-> k], LAMBDA k : reqs[k].svc = s)

\* the payload of an upgraded session reaches the service, never the client
UpgradeReached == \E j \in 1..Len(out) : reqs[out[j].req].k = "upgrade"
UpgradePayloadToService ==
  (Done /\ UpgradeReached) => (rawToSvc = payload /\ rawToClient = 0)

\* when the service ends an upgraded session the bridge stops too (it does not wait for the client), and what the service said
\* before hanging up has reached the client
StopsWhenServiceEnds == pc # "stuck"
GoodbyeForwarded == (Done /\ UpgradeReached /\ upEnd = "service" /\ payload > 0) => bye = 1

\* what an upgraded service says first (it may arrive together with the reply that confirmed the upgrade) reaches the client
GreetingForwarded == (Done /\ UpgradeReached /\ greet) => hello = 1

\* nothing went wrong on any socket: the bridge reports success
ExitZero == Done => exit = "ok"
=============================================================================
