-------------------------------- MODULE Pool --------------------------------
(***************************************************************************)
(* The worker pool of varlink::listen (varlink/src/server.rs: ThreadPool,  *)
(* Worker).  One action per step of the code so that TLC explores every    *)
(* interleaving of the acceptor (execute) with the workers:                *)
(*                                                                         *)
(*   acceptor, for each accepted connection j                              *)
(*     AccCount(j)   count the job            (counter write lock)         *)
(*     AccSend       push it on the channel                                 *)
(*     AccDecide     read the counter, spawn one more worker or not        *)
(*   worker w                                                               *)
(*     WRecv(w)      take the next message (job or Terminate)              *)
(*     WCount(w)     [only in the lagging design] count the job            *)
(*     WStart(w)     the job (= serving one connection) begins             *)
(*     WFinish(w)    the connection is over (environment decides when)     *)
(*     WUncount(w)   un-count the job         (counter write lock)         *)
(*   drop                                                                   *)
(*     DropSend      one Terminate per worker, behind all queued jobs      *)
(*                                                                         *)
(* Jobs are long-lived: a job finishes only when the environment lets it   *)
(* (`mayFinish`), which is what makes stranding observable.                *)
(*                                                                         *)
(* Design constants select the modelled design:                            *)
(*   CountAtEnqueue = TRUE : the job is counted by the acceptor when it is *)
(*                           queued; grow while counted > workers          *)
(*                           and workers < Max           (intended design) *)
(*   CountAtEnqueue = FALSE: workers count after dequeue; grow when        *)
(*                           counter + 1 >= workers      (BUG_LaggingBusy) *)
(*   LeLimit = TRUE        : growth guard is workers <= Max   (BUG_LeLimit)*)
(*                                                                         *)
(* Faults: a connection handler may end by panicking instead of returning  *)
(* (EnvCrash: the environment decides which jobs do, at most MaxCrash).    *)
(*   PanicMode = "caught"      : the worker outlives the panic: for the    *)
(*                               pool it is just another way a job ends    *)
(*                               (un-count, back to recv) (intended design)*)
(*   PanicMode = "dies"        : the worker thread is gone, its job stays  *)
(*                               counted, the pool still counts the thread *)
(*                               (BUG_PanicKillsWorker)                    *)
(*   PanicMode = "dies_uncount": the thread is gone but the job is         *)
(*                               un-counted on the way out: the pool takes *)
(*                               the dead thread for an idle one           *)
(*                               (BUG_PanicUncountsDeadWorker)             *)
(***************************************************************************)
EXTENDS Integers, Sequences, FiniteSets, TLC

CONSTANTS Initial,          \* initial worker threads (>= 1)
          Max,              \* configured maximum
          NJobs,            \* connections that will be accepted
          MaxWorkers,       \* size of the worker id space (>= Max + 1 so that BUG_LeLimit is expressible)
          CountAtEnqueue, LeLimit,
          MaxCrash,         \* how many jobs may end by panicking
          PanicMode

Jobs == 1..NJobs
Wids == 1..MaxWorkers

VARIABLES
  workers,   \* number of worker threads spawned so far (ids 1..workers)
  ctr,       \* the shared counter (num_busy)
  queue,     \* the channel: job ids and 0 markers
  wst,       \* worker state: "recv" | "got" | "ready" | "running" | "finished" | "dead" | "none"
  wjob,      \* job held by a worker (0 = none)
  apc,       \* acceptor: "idle" | "counted" | "sent" | "dropping" | "dropped"
  nextJob,   \* next connection to accept
  mayFinish, \* jobs the environment has allowed to end
  crash,     \* jobs (a subset of mayFinish) whose handler ends by panicking
  served,    \* jobs whose handler has started
  doneJobs   \* jobs whose handler has returned

pvars == <<workers, ctr, queue, wst, wjob, apc, nextJob, mayFinish, crash, served, doneJobs>>

PInit ==
  /\ workers = Initial
  /\ ctr = 0
  /\ queue = <<>>
  /\ wst = [w \in Wids |-> IF w <= Initial THEN "recv" ELSE "none"]
  /\ wjob = [w \in Wids |-> 0]
  /\ apc = "idle"
  /\ nextJob = 1
  /\ mayFinish = {}
  /\ crash = {}
  /\ served = {}
  /\ doneJobs = {}

(* ---------------- acceptor: ThreadPool::execute ---------------- *)
AccCount ==
  /\ apc = "idle" /\ nextJob <= NJobs
  /\ IF CountAtEnqueue THEN ctr' = ctr + 1 ELSE UNCHANGED ctr
  /\ apc' = "counted"
  /\ UNCHANGED <<workers, queue, wst, wjob, nextJob, mayFinish, crash, served, doneJobs>>

AccSend ==
  /\ apc = "counted"
  /\ queue' = Append(queue, nextJob)
  /\ apc' = "sent"
  /\ UNCHANGED <<workers, ctr, wst, wjob, nextJob, mayFinish, crash, served, doneJobs>>

WantGrow ==
  /\ IF CountAtEnqueue THEN ctr > workers ELSE ctr + 1 >= workers
  /\ IF LeLimit THEN workers <= Max ELSE workers < Max

AccDecide ==
  /\ apc = "sent"
  /\ IF WantGrow /\ workers < MaxWorkers
     THEN /\ workers' = workers + 1
          /\ wst' = [wst EXCEPT ![workers + 1] = "recv"]
     ELSE UNCHANGED <<workers, wst>>
  /\ apc' = "idle" /\ nextJob' = nextJob + 1
  /\ UNCHANGED <<ctr, queue, wjob, mayFinish, crash, served, doneJobs>>

(* ---------------- workers ---------------- *)
WRecv(w) ==
  /\ wst[w] = "recv" /\ queue # <<>>
  /\ queue' = Tail(queue)
  /\ IF Head(queue) = 0
     THEN wst' = [wst EXCEPT ![w] = "dead"] /\ UNCHANGED wjob
     ELSE /\ wjob' = [wjob EXCEPT ![w] = Head(queue)]
          /\ wst' = [wst EXCEPT ![w] = IF CountAtEnqueue THEN "ready" ELSE "got"]
  /\ UNCHANGED <<workers, ctr, apc, nextJob, mayFinish, crash, served, doneJobs>>

WCount(w) ==
  /\ wst[w] = "got"
  /\ ctr' = ctr + 1
  /\ wst' = [wst EXCEPT ![w] = "ready"]
  /\ UNCHANGED <<workers, queue, wjob, apc, nextJob, mayFinish, crash, served, doneJobs>>

WStart(w) ==
  /\ wst[w] = "ready"
  /\ wst' = [wst EXCEPT ![w] = "running"]
  /\ served' = served \cup {wjob[w]}
  /\ UNCHANGED <<workers, ctr, queue, wjob, apc, nextJob, mayFinish, crash, doneJobs>>

EnvRelease(j) ==
  /\ j \in Jobs \ mayFinish
  /\ mayFinish' = mayFinish \cup {j}
  /\ UNCHANGED <<workers, ctr, queue, wst, wjob, apc, nextJob, crash, served, doneJobs>>

\* the handler of connection j will end by panicking (a fault of the service's own code, decided by the environment)
EnvCrash(j) ==
  /\ j \in Jobs \ mayFinish
  /\ Cardinality(crash) < MaxCrash
  /\ mayFinish' = mayFinish \cup {j}
  /\ crash' = crash \cup {j}
  /\ UNCHANGED <<workers, ctr, queue, wst, wjob, apc, nextJob, served, doneJobs>>

WFinish(w) ==
  /\ wst[w] = "running" /\ wjob[w] \in mayFinish
  /\ doneJobs' = doneJobs \cup {wjob[w]}
  /\ IF wjob[w] \in crash /\ PanicMode # "caught"
     THEN \* the thread unwinds and is gone; `workers` (the pool's Vec) still counts it
          /\ wst' = [wst EXCEPT ![w] = "dead"]
          /\ wjob' = [wjob EXCEPT ![w] = 0]
          /\ ctr' = IF PanicMode = "dies_uncount" THEN ctr - 1 ELSE ctr
     ELSE /\ wst' = [wst EXCEPT ![w] = "finished"]
          /\ UNCHANGED <<ctr, wjob>>
  /\ UNCHANGED <<workers, queue, apc, nextJob, mayFinish, crash, served>>

WUncount(w) ==
  /\ wst[w] = "finished"
  /\ ctr' = ctr - 1
  /\ wst' = [wst EXCEPT ![w] = "recv"]
  /\ wjob' = [wjob EXCEPT ![w] = 0]
  /\ UNCHANGED <<workers, queue, apc, nextJob, mayFinish, crash, served, doneJobs>>

(* ---------------- drop: Terminate behind every queued job, then join ---------------- *)
DropSendBody ==
  /\ apc = "idle"
  /\ queue' = queue \o [i \in 1..workers |-> 0]
  /\ apc' = "dropping"
  /\ UNCHANGED <<workers, ctr, wst, wjob, nextJob, mayFinish, crash, served, doneJobs>>

DropSend == nextJob > NJobs /\ DropSendBody

DropJoined ==
  /\ apc = "dropping"
  /\ \A w \in 1..workers : wst[w] = "dead"
  /\ apc' = "dropped"
  /\ UNCHANGED <<workers, ctr, queue, wst, wjob, nextJob, mayFinish, crash, served, doneJobs>>

PNextNoDrop ==
  \/ AccCount \/ AccSend \/ AccDecide
  \/ \E w \in Wids : WRecv(w) \/ WCount(w) \/ WStart(w) \/ WFinish(w) \/ WUncount(w)
  \/ \E j \in Jobs : EnvRelease(j) \/ EnvCrash(j)

PNext == PNextNoDrop \/ DropSend \/ DropJoined

WorkerSteps == \E w \in Wids : WRecv(w) \/ WCount(w) \/ WStart(w) \/ WUncount(w)

PSpec == PInit /\ [][PNext]_pvars
\* fairness: workers take their own steps and the acceptor completes the execute() it has begun; nothing forces a
\* further connection to arrive or a connection to end
PFairSpec == PSpec /\ WF_pvars(WorkerSteps) /\ WF_pvars(AccSend \/ AccDecide)

---------------------------------------------------------------------------
(* Properties (C14) *)

InService == {w \in Wids : wst[w] = "running"}

\* at no time more than Max connections being served
Bounded == Cardinality(InService) <= Max

NeverMoreThreadsThanMax == workers <= Max

QueuedJobs == {queue[i] : i \in {k \in 1..Len(queue) : queue[k] # 0}}

\* workers that will take a queued job without anybody else doing anything:
\* waiting in recv, or past their job and on their way back to recv
\* a "finished" worker only needs its own steps (uncount, recv): it does not wait for another connection to finish
Taking == {w \in 1..workers : wst[w] \in {"got", "ready"}}

\* NoStranding (safety form): whenever the acceptor is between connections, the queued connections that could be
\* served within the bound have a worker that will take them without another connection finishing or arriving
NoStranding ==
  (apc = "idle") =>
     LET capacity == Max - Cardinality(InService) - Cardinality(Taking)
         need     == IF Cardinality(QueuedJobs) < capacity THEN Cardinality(QueuedJobs) ELSE capacity
     IN  Cardinality({w \in 1..workers : wst[w] \in {"recv", "finished"}}) >= need

\* liveness form, under fairness of worker steps only (no job ever finishes unless released, no further arrival needed):
\* every accepted connection is eventually served or the pool is saturated
Saturated == Cardinality(InService) >= Max
EventuallyServed == \A j \in Jobs : (j \in QueuedJobs) ~> (j \in served \/ Saturated)

\* counter sanity
CounterNonNegative == ctr >= 0

\* drop waits for every accepted job
DropAfterDrain == (apc = "dropped") => doneJobs = 1..(nextJob - 1)

TypeOK ==
  /\ workers \in Initial..MaxWorkers
  /\ ctr \in 0..(NJobs + 1)
  /\ apc \in {"idle", "counted", "sent", "dropping", "dropped"}
=============================================================================
