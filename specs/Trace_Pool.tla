----------------------------- MODULE Trace_Pool -----------------------------
(* Trace validation (impl -> spec) of the worker pool.  The trace is the log *)
(* of the cfg(varlink_rust_verif) probes of free-running (random / sleep-    *)
(* injected) schedules of the REAL ThreadPool: one event per pool step,      *)
(* logged after the state change (counter events under the counter's lock).  *)
(* Every event must be a step of Pool.tla; Bounded and NoStranding are       *)
(* evaluated in every state of the observed execution.                       *)
(*                                                                           *)
(* Grain-of-atomicity mismatches, resolved explicitly:                       *)
(*  - "acc_send" is logged after the channel send, so a worker's "w_recv"    *)
(*    of that very job may be logged first: TWRecvEarly composes the silent  *)
(*    send; the late "acc_send" event then only advances the acceptor.       *)
(*  - "acc_decide" logs the pool size after the decision; the counter value  *)
(*    the acceptor read may be older than the log position by the un-count   *)
(*    events logged since its "acc_count": the decision must be explainable  *)
(*    with one of those values.                                              *)
(*  - likewise "drop_send" is logged after the Terminate messages went out: *)
(*    a worker's Terminate "w_recv" may precede it (dropEarly).              *)
(*  - "acc_decide" is logged after the new worker thread has been spawned:   *)
(*    that worker's first "w_recv" may precede it (grewEarly): TWRecvNew      *)
(*    composes the growth, the late "acc_decide" only checks the pool size.  *)
(*  - jobs are not identified at dequeue (log order of two "w_recv" may      *)
(*    differ from channel order): the trace binds job ids at job_start.      *)
EXTENDS Pool, Json, IOUtils

Rec == ndJsonDeserialize(IOEnv.TRACE)

VARIABLES l, sentEarly, dropEarly, unc, maxNow, njobsNow, started, grewEarly

tvars == <<pvars, l, sentEarly, dropEarly, unc, maxNow, njobsNow, started, grewEarly>>

Ev == Rec[l]
IsEv(e) == l <= Len(Rec) /\ Ev.ev = e /\ l' = l + 1

\* Pool.tla's constants Initial/Max/NJobs are upper bounds here; each run in the trace carries its own
\* configuration (reset event), kept in maxNow / njobsNow.

TReset ==
  /\ IsEv("reset")
  /\ workers' = Ev.initial /\ ctr' = 0 /\ queue' = <<>>
  /\ wst' = [w \in Wids |-> IF w <= Ev.initial THEN "recv" ELSE "none"]
  /\ wjob' = [w \in Wids |-> 0]
  /\ apc' = "idle" /\ nextJob' = 1 /\ mayFinish' = {} /\ crash' = {} /\ served' = {} /\ doneJobs' = {}
  /\ sentEarly' = FALSE /\ dropEarly' = FALSE /\ unc' = 0 /\ maxNow' = Ev.max /\ njobsNow' = Ev.njobs /\ started' = {}
  /\ grewEarly' = FALSE

TAccCount ==
  /\ IsEv("acc_count")
  /\ apc = "idle"
  /\ ctr' = ctr + 1 /\ ctr' = Ev.a /\ workers = Ev.b
  /\ apc' = "counted" /\ unc' = 0
  /\ UNCHANGED <<workers, queue, wst, wjob, nextJob, mayFinish, crash, served, doneJobs, sentEarly, dropEarly, maxNow, njobsNow, started, grewEarly>>

TAccSend ==
  /\ IsEv("acc_send")
  /\ apc = "counted"
  /\ IF sentEarly THEN UNCHANGED queue ELSE queue' = Append(queue, nextJob)
  /\ apc' = "sent" /\ sentEarly' = FALSE
  /\ UNCHANGED <<workers, ctr, wst, wjob, nextJob, mayFinish, crash, served, doneJobs, dropEarly, unc, maxNow, njobsNow, started, grewEarly>>

GrowWith(c) == c > workers /\ workers < maxNow

TAccDecide ==
  /\ IsEv("acc_decide")
  /\ apc = "sent"
  /\ IF grewEarly
     THEN \* the growth was composed when the new worker's first event arrived
          /\ Ev.b = workers /\ UNCHANGED <<workers, wst>>
     ELSE \E k \in 0..unc :
            IF GrowWith(ctr + k)
            THEN /\ Ev.b = workers + 1 /\ workers' = workers + 1
                 /\ wst' = [wst EXCEPT ![workers + 1] = "recv"]
            ELSE /\ Ev.b = workers /\ UNCHANGED <<workers, wst>>
  /\ apc' = "idle" /\ nextJob' = nextJob + 1 /\ grewEarly' = FALSE
  /\ UNCHANGED <<ctr, queue, wjob, mayFinish, crash, served, doneJobs, sentEarly, dropEarly, unc, maxNow, njobsNow, started>>

\* the worker spawned by the decision that is not logged yet dequeues a job
TWRecvNew ==
  /\ IsEv("w_recv")
  /\ apc = "sent" /\ ~grewEarly
  /\ Ev.w = workers + 1 /\ Ev.a = 1
  /\ \E k \in 0..unc : GrowWith(ctr + k)
  /\ \E i \in 1..Len(queue) :
       /\ queue[i] # 0
       /\ queue' = SubSeq(queue, 1, i - 1) \o SubSeq(queue, i + 1, Len(queue))
       /\ wst' = [wst EXCEPT ![workers + 1] = "ready"]
       /\ wjob' = [wjob EXCEPT ![workers + 1] = queue[i]]
  /\ workers' = workers + 1 /\ grewEarly' = TRUE
  /\ UNCHANGED <<ctr, apc, nextJob, mayFinish, crash, served, doneJobs, sentEarly, dropEarly, unc, maxNow, njobsNow, started>>

\* a worker dequeues: a job (a = 1) or a Terminate (a = 0)
TWRecv ==
  /\ IsEv("w_recv")
  /\ LET w == Ev.w IN
     /\ w \in 1..workers /\ wst[w] = "recv"
     /\ \/ \* the probe is logged after the channel lock is released, so two dequeues may be logged in the
           \* opposite order: the event takes SOME queued message of its kind (job / Terminate)
           /\ \E i \in 1..Len(queue) :
                /\ (Ev.a = 1) = (queue[i] # 0)
                /\ queue' = SubSeq(queue, 1, i - 1) \o SubSeq(queue, i + 1, Len(queue))
                /\ IF queue[i] = 0
                   THEN wst' = [wst EXCEPT ![w] = "dead"] /\ UNCHANGED wjob
                   ELSE wst' = [wst EXCEPT ![w] = "ready"] /\ wjob' = [wjob EXCEPT ![w] = queue[i]]
           /\ UNCHANGED <<sentEarly, dropEarly>>
        \/ \* the send of the current job has happened but is not logged yet
           /\ queue = <<>> /\ apc = "counted" /\ ~sentEarly /\ Ev.a = 1
           /\ wst' = [wst EXCEPT ![w] = "ready"] /\ wjob' = [wjob EXCEPT ![w] = nextJob]
           /\ sentEarly' = TRUE /\ UNCHANGED <<queue, dropEarly>>
        \/ \* the Terminate messages of the drop have been sent but "drop_send" is not logged yet
           /\ Ev.a = 0 /\ apc = "idle" /\ nextJob = njobsNow + 1 /\ ~dropEarly
           /\ \A i \in 1..Len(queue) : queue[i] # 0
           /\ queue' = queue \o [i \in 1..(workers - 1) |-> 0]
           /\ wst' = [wst EXCEPT ![w] = "dead"] /\ UNCHANGED wjob
           /\ dropEarly' = TRUE /\ UNCHANGED sentEarly
  /\ UNCHANGED <<workers, ctr, apc, nextJob, mayFinish, crash, served, doneJobs, unc, maxNow, njobsNow, started, grewEarly>>

TJobStart ==
  /\ IsEv("job_start")
  /\ LET w == Ev.w IN
     /\ wst[w] = "ready"
     /\ Ev.a \notin started                      \* every job starts at most once
     /\ started' = started \cup {Ev.a}
     /\ wst' = [wst EXCEPT ![w] = "running"]
     /\ wjob' = [wjob EXCEPT ![w] = Ev.a]       \* bind the job identity here
     /\ served' = served \cup {Ev.a}
  /\ UNCHANGED <<workers, ctr, queue, apc, nextJob, mayFinish, crash, doneJobs, sentEarly, dropEarly, unc, maxNow, njobsNow, grewEarly>>

TJobEnd ==
  /\ IsEv("job_end")
  /\ LET w == Ev.w IN
     /\ wst[w] = "running" /\ wjob[w] = Ev.a
     /\ wst' = [wst EXCEPT ![w] = "finished"]
     /\ doneJobs' = doneJobs \cup {Ev.a}
     /\ crash' = crash /\ mayFinish' = mayFinish \cup {Ev.a}
  /\ UNCHANGED <<workers, ctr, queue, wjob, apc, nextJob, served, sentEarly, dropEarly, unc, maxNow, njobsNow, started, grewEarly>>

TWUncount ==
  /\ IsEv("w_uncount")
  /\ LET w == Ev.w IN
     /\ wst[w] = "finished"
     /\ ctr' = ctr - 1 /\ ctr' = Ev.a
     /\ wst' = [wst EXCEPT ![w] = "recv"] /\ wjob' = [wjob EXCEPT ![w] = 0]
  /\ unc' = unc + 1
  /\ UNCHANGED <<workers, queue, apc, nextJob, mayFinish, crash, served, doneJobs, sentEarly, dropEarly, maxNow, njobsNow, started, grewEarly>>

TDropSend ==
  /\ IsEv("drop_send")
  /\ apc = "idle" /\ nextJob = njobsNow + 1
  /\ Ev.b = workers
  /\ IF dropEarly THEN UNCHANGED queue ELSE queue' = queue \o [i \in 1..workers |-> 0]
  /\ apc' = "dropping" /\ dropEarly' = FALSE
  /\ UNCHANGED <<workers, ctr, wst, wjob, nextJob, mayFinish, crash, served, doneJobs, sentEarly, unc, maxNow, njobsNow, started, grewEarly>>

TDropJoined ==
  /\ IsEv("drop_joined")
  /\ apc = "dropping"
  /\ \A w \in 1..workers : wst[w] = "dead"
  /\ doneJobs = 1..njobsNow                      \* drop returns only after every accepted job has finished
  /\ apc' = "dropped"
  /\ UNCHANGED <<workers, ctr, queue, wst, wjob, nextJob, mayFinish, crash, served, doneJobs, sentEarly, dropEarly, unc, maxNow, njobsNow, started, grewEarly>>

TraceInit ==
  /\ PInit /\ l = 1 /\ sentEarly = FALSE /\ dropEarly = FALSE /\ unc = 0 /\ maxNow = Max /\ njobsNow = NJobs /\ started = {}
  /\ grewEarly = FALSE

TraceNext == TReset \/ TAccCount \/ TAccSend \/ TAccDecide \/ TWRecv \/ TWRecvNew \/ TJobStart \/ TJobEnd \/ TWUncount \/ TDropSend \/ TDropJoined

TraceSpec == TraceInit /\ [][TraceNext]_tvars

\* the properties, on every state of the observed execution (with the run's own maximum)
TBounded == Cardinality(InService) <= maxNow /\ workers <= maxNow
TNoStranding ==
  (apc = "idle" /\ ~sentEarly) =>
     LET capacity == maxNow - Cardinality(InService) - Cardinality(Taking)
         need     == IF Cardinality(QueuedJobs) < capacity THEN Cardinality(QueuedJobs) ELSE capacity
     IN  Cardinality({w \in 1..workers : wst[w] \in {"recv", "finished"}}) >= need
TraceInv == TBounded /\ TNoStranding /\ ctr >= 0

TraceAccepted ==
  LET d == TLCGet("stats").diameter IN
  IF d - 1 = Len(Rec) THEN TRUE
  ELSE Print(<<"TRACE-REJECTED at event", d, Rec[d]>>, FALSE)
=============================================================================
