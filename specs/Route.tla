------------------------------- MODULE Route -------------------------------
(***************************************************************************)
(* Routing of a call by interface name and the truthfulness of the         *)
(* built-in org.varlink.service interface (C03).                           *)
(*                                                                         *)
(* Names are sequences of dot-separated elements (TLC strings are atomic;  *)
(* the dot-join is the harness's concretisation).  A service configuration *)
(* is a SET of registered interface names, so routing is by construction   *)
(* independent of registration order - the conformance replay registers    *)
(* the interfaces in several orders.                                        *)
(*                                                                         *)
(* Bound to: VarlinkService::{new, call, handle} and the built-in          *)
(* Interface impl (varlink/src/lib.rs), generated dispatch fall-through.   *)
(***************************************************************************)
EXTENDS Naturals, Sequences, FiniteSets, TLC

CONSTANT BugFirstDotR,      \* wrong design: split at the first dot
         BugPrefixMatch     \* wrong design: longest registered prefix wins instead of exact match

Svc == <<"org", "varlink", "service">>

Front(s) == SubSeq(s, 1, Len(s) - 1)
Last(s)  == s[Len(s)]

IsPrefixOf(p, s) == Len(p) <= Len(s) /\ SubSeq(s, 1, Len(p)) = p

(* the interface part of a method *)
IfaceOf(m) == IF BugFirstDotR THEN <<m[1]>> ELSE Front(m)

(* Decision for a method given as a sequence of >= 1 elements:             *)
(*  [t |-> "ifnf",  name |-> n]   InterfaceNotFound(n)                      *)
(*  [t |-> "mnf"]                 MethodNotFound(full method string)        *)
(*  [t |-> "hit",   name |-> n]   handed to the interface registered as n, *)
(*                                request unchanged                          *)
(*  [t |-> "builtin", meth |-> e] the service's own interface               *)
Route(cfg, m) ==
  IF Len(m) < 2 THEN [t |-> "ifnf", name |-> m]          \* no dot: the whole method is reported
  ELSE LET i == IfaceOf(m) IN
       IF i = Svc THEN [t |-> "builtin", meth |-> Last(m)]
       ELSE IF i \in cfg THEN [t |-> "hit", name |-> i]
       ELSE IF BugPrefixMatch /\ \E n \in cfg : IsPrefixOf(n, i)
            THEN [t |-> "hit", name |-> CHOOSE n \in cfg : IsPrefixOf(n, i)]
       ELSE [t |-> "ifnf", name |-> i]

(* org.varlink.service.GetInterfaceDescription(arg)                         *)
(*   arg: [k |-> "name", name |-> n] | "absent" (no parameters) | "illtyped" *)
Descr(cfg, arg) ==
  CASE arg.k = "absent"   -> [t |-> "invalid", p |-> "parameters"]
    [] arg.k = "illtyped" -> [t |-> "close"]
    [] arg.k = "name" ->
         IF arg.name = Svc \/ arg.name \in cfg THEN [t |-> "descr", name |-> arg.name]
         ELSE [t |-> "invalid", p |-> "interface"]

(* Registration is a sequence of interface objects; the routing table is the SET of their names: registering a name a second time *)
(* (a default implementation and its override) replaces the object behind the entry, it does not add an entry.                       *)
Table(regs) == {regs[i] : i \in 1..Len(regs)}
(* GetInfo: org.varlink.service first, then every registered interface exactly once (any order) *)
InfoOk(cfg, list) ==
  /\ Len(list) = Cardinality(cfg) + 1
  /\ list[1] = Svc
  /\ {list[j] : j \in 2..Len(list)} = cfg

---------------------------------------------------------------------------
(* Properties of the table itself *)

\* a call is handed to an interface only under exactly its registered name
ExactMatchOnly(cfg, m) ==
  LET r == Route(cfg, m) IN
  r.t = "hit" => (r.name \in cfg /\ Len(m) >= 2 /\ r.name = Front(m))

\* registering more interfaces never changes where a call to an already registered one goes
Monotone(cfg, extra, m) ==
  LET r == Route(cfg, m) IN
  r.t = "hit" => Route(cfg \cup extra, m) = r

\* the built-in interface cannot be shadowed
BuiltinFirst(cfg, m) ==
  (Len(m) >= 2 /\ Front(m) = Svc) => Route(cfg, m).t = "builtin"
=============================================================================
