----------------------------- MODULE Trace_Conn -----------------------------
(* Trace validation (impl -> spec) for server connections.                  *)
(* The trace (NDJSON, env TRACE) is a sequence of events recorded by        *)
(* `vh conntrace` / the multi-client driver from REAL connections:          *)
(*   conn   a new connection starts                                          *)
(*   req    an abstract request the driver sent (kind, flags, script)       *)
(*   reply  the driver's projection of a reply it received                   *)
(*   end    observed final state of the connection (open/closed/upgraded)   *)
(* Every event must be a step the reference semantics allows: the replies   *)
(* of a connection, in order, are exactly ConnRef!Expected of its requests. *)
EXTENDS ConnRef, Json, IOUtils, SequencesExt

Rec == ndJsonDeserialize(IOEnv.TRACE)

VARIABLES l,      \* next event
          reqs,   \* requests of the current connection
          got     \* number of replies of the current connection consumed so far

tvars == <<l, reqs, got>>

Ev == Rec[l]
IsEv(e) == l <= Len(Rec) /\ Ev.ev = e /\ l' = l + 1

ToReq(e) == Req(e.k, e.more, e.oneway, e.upgrade, e.script)

Exp == ExpectedOf(reqs)

TConn  == IsEv("conn") /\ reqs' = <<>> /\ got' = 0

TReq   == IsEv("req") /\ got = 0 /\ reqs' = Append(reqs, ToReq(Ev)) /\ UNCHANGED got

\* the reply must be the next item the specification expects on this connection
TReply == /\ IsEv("reply")
          /\ got < Len(Exp.out)
          /\ LET x == Exp.out[got + 1] IN
               /\ x.cont = Ev.cont /\ x.err = Ev.err /\ x.arg = Ev.arg
               /\ (Ev.req = 0 \/ Ev.req = x.req)
          /\ got' = got + 1 /\ UNCHANGED reqs

\* at the end every expected reply has arrived and the connection state is the expected one
TEnd   == /\ IsEv("end")
          /\ got = Len(Exp.out)
          /\ Ev.state = Exp.end
          /\ Ev.upok
          /\ UNCHANGED <<reqs, got>>

TraceInit == l = 1 /\ reqs = <<>> /\ got = 0
TraceNext == TConn \/ TReq \/ TReply \/ TEnd
TraceSpec == TraceInit /\ [][TraceNext]_tvars

TraceInv == InOrder(SubSeq(Exp.out, 1, got))

TraceAccepted ==
  LET d == TLCGet("stats").diameter IN
  IF d - 1 = Len(Rec) THEN TRUE
  ELSE Print(<<"TRACE-REJECTED at event", d, Rec[d], "expected-next",
               IF Rec[d].ev \in {"reply", "end"} THEN "see spec state" ELSE "">>, FALSE)
=============================================================================
