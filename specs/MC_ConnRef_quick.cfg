SPECIFICATION Spec
CONSTANTS
  BugOnewayReplies = FALSE
  BugNoContinuesGate = FALSE
  BugFirstDot = FALSE
  MaxLen = 2
  AlphabetName = "full"
  Emit = TRUE
INVARIANTS RefInOrder RefOneFinal RefEndSane EmitCase
CHECK_DEADLOCK FALSE
