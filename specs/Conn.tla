------------------------------- MODULE Conn -------------------------------
(***************************************************************************)
(* Implementation-shaped model of ONE varlink server connection:           *)
(*   VarlinkService::handle  (varlink/src/lib.rs)                          *)
(*     - the BufReader it creates on every invocation (`ibuf`)             *)
(*     - read_until(NUL), EOF / incomplete-message returns (`msg`, `tail`) *)
(*     - per-request dispatch (table ConnRef!Serve), loop / break / return *)
(*   its two callers                                                       *)
(*     - mode "mem":    the documented re-feed loop (varlink/src/test.rs): *)
(*                      handle(tail \o chunk) once per chunk               *)
(*     - mode "listen": the worker closure of varlink::listen              *)
(*                      (varlink/src/server.rs) with its own BufReader     *)
(*                      (`obuf`), the fill_buf probe, shutdown on error    *)
(*   and the peer, which writes the byte stream in arbitrary chunks.       *)
(*                                                                         *)
(* The byte stream is a sequence of atoms: message i contributes its body  *)
(* atoms <<"B",i>> (and <<"b",i>> when BodyAtoms = 2) and its terminator   *)
(* <<"Z",i>>; a truncated trailing message contributes only <<"B",n+1>>.   *)
(* A segmentation is any partition of the atom sequence into chunks.       *)
(*                                                                         *)
(* TLC checks that for EVERY request sequence and EVERY segmentation the   *)
(* machine produces exactly ConnRef!Expected - which does not mention      *)
(* chunks at all.                                                          *)
(***************************************************************************)
EXTENDS Naturals, Sequences, FiniteSets, TLC, SequencesExt

CONSTANTS
  BugOnewayReplies, BugNoContinuesGate, BugFirstDot,   \* passed to ConnRef
  BugNoDotReturn,       \* wrong design: early return after a method without a dot (drops `ibuf`)
  BugDropUpgradeTail,   \* wrong design: listen worker discards the remainder returned on upgrade
  BugReplyOnMalformed,  \* wrong design: an error reply is written for an undecodable message
  BodyAtoms,            \* 1 or 2 body atoms per message
  FillAll               \* TRUE: a buffer fill always takes everything available (replay generation)

Ref == INSTANCE ConnRef

VARIABLES
  reqs,     \* the request sequence the peer sends (chosen in Init)
  trunc,    \* TRUE: the stream ends with an unterminated partial message
  mode,     \* "mem" | "listen"
  chunks,   \* chunks the peer has not written yet
  wire,     \* mem: the slice handed to handle(); listen: bytes in the socket
  eof,      \* wire ends with EOF (mem: always; listen: peer has shut down)
  obuf,     \* listen worker's BufReader (server.rs `br`)
  ibuf,     \* BufReader created inside handle()
  msg,      \* bytes read_until has accumulated for the current message
  pc,       \* control state
  cur,      \* index of the last request parsed
  upg,      \* connection upgraded (Option<String> carried between invocations)
  tail,     \* remainder returned by the last invocation
  fed,      \* atoms handed to handle so far (mem: for TailIsUnconsumedSuffix)
  out,      \* observation: tagged reply items written
  upRx,     \* observation: atoms delivered to call_upgraded
  hist      \* observation: enter / return events (replay generation)

vars == <<reqs, trunc, mode, chunks, wire, eof, obuf, ibuf, msg, pc, cur, upg, tail, fed, out, upRx, hist>>

---------------------------------------------------------------------------
MsgAtoms(i) == IF BodyAtoms = 2 THEN << <<"B", i>>, <<"b", i>>, <<"Z", i>> >>
               ELSE << <<"B", i>>, <<"Z", i>> >>

RECURSIVE StreamFrom(_, _)
StreamFrom(rs, i) == IF i > Len(rs) THEN <<>> ELSE MsgAtoms(i) \o StreamFrom(rs, i + 1)

Stream(rs, tr) == StreamFrom(rs, 1) \o (IF tr THEN << <<"B", Len(rs) + 1>> >> ELSE <<>>)

\* partition of sequence s at the cut positions c (a subset of 1..Len(s)-1)
RECURSIVE Cut(_, _, _)
Cut(s, c, from) ==
  IF from > Len(s) THEN <<>>
  ELSE LET nexts == {k \in c : k >= from}
           to    == IF nexts = {} THEN Len(s) ELSE CHOOSE k \in nexts : \A j \in nexts : k <= j
       IN  <<SubSeq(s, from, to)>> \o Cut(s, c, to + 1)

IsZ(a) == a[1] = "Z"
HasZ(s) == \E k \in 1..Len(s) : IsZ(s[k])
FirstZ(s) == CHOOSE k \in 1..Len(s) : IsZ(s[k]) /\ \A j \in 1..(k - 1) : ~IsZ(s[j])

\* In "mem" mode the chunk handed to one handle() call is assumed to fit handle()'s own buffer (8 KiB): a fill takes
\* everything.  (What happens beyond that is a recorded finding, F21: the remainder stays in the caller's temporary reader.)
\* In "listen" mode reads are short in arbitrary ways.
TakeLens(s) == IF FillAll \/ mode = "mem" THEN {Len(s)} ELSE 1..Len(s)

E == Ref!ExpectedOf(reqs)
AllAtoms == Stream(reqs, trunc)

---------------------------------------------------------------------------
Init ==
  /\ pc = "outside" /\ cur = 0 /\ upg = FALSE
  /\ wire = <<>> /\ eof = FALSE /\ obuf = <<>> /\ ibuf = <<>> /\ msg = <<>> /\ tail = <<>> /\ fed = <<>>
  /\ out = <<>> /\ upRx = <<>> /\ hist = <<>>

(* ---- the peer ---- *)
PeerWrite ==
  /\ mode = "listen" /\ chunks # <<>> /\ pc \notin {"closed", "done"}
  /\ wire' = wire \o Head(chunks) /\ chunks' = Tail(chunks)
  /\ UNCHANGED <<reqs, trunc, mode, eof, obuf, ibuf, msg, pc, cur, upg, tail, fed, out, upRx, hist>>

PeerClose ==
  /\ mode = "listen" /\ chunks = <<>> /\ ~eof
  /\ eof' = TRUE
  /\ UNCHANGED <<reqs, trunc, mode, chunks, wire, obuf, ibuf, msg, pc, cur, upg, tail, fed, out, upRx, hist>>

(* ---- entering handle() ---- *)
EnterMem ==
  /\ mode = "mem" /\ pc = "outside" /\ chunks # <<>>
  /\ wire' = tail \o Head(chunks) /\ chunks' = Tail(chunks) /\ eof' = TRUE
  /\ fed' = fed \o Head(chunks)
  /\ tail' = <<>> /\ ibuf' = <<>> /\ msg' = <<>>
  /\ pc' = IF upg THEN "upcall" ELSE "loop"
  /\ hist' = Append(hist, [ev |-> "enter", n |-> Len(Head(chunks))])
  /\ UNCHANGED <<reqs, trunc, mode, obuf, cur, upg, out, upRx>>

\* final invocation at end of input for an upgraded connection whose read-ahead is still in `tail`
EnterMemFlush ==
  /\ mode = "mem" /\ pc = "outside" /\ chunks = <<>> /\ upg /\ tail # <<>>
  /\ wire' = tail /\ eof' = TRUE /\ tail' = <<>> /\ ibuf' = <<>> /\ msg' = <<>>
  /\ pc' = "upcall"
  /\ hist' = Append(hist, [ev |-> "enter", n |-> 0])
  /\ UNCHANGED <<reqs, trunc, mode, chunks, obuf, cur, upg, fed, out, upRx>>

EnterListen ==
  /\ mode = "listen" /\ pc = "outside"
  /\ ibuf' = <<>> /\ msg' = <<>>
  /\ pc' = IF upg THEN "upcall" ELSE "loop"
  /\ UNCHANGED <<reqs, trunc, mode, chunks, wire, eof, obuf, cur, upg, tail, fed, out, upRx, hist>>

(* ---- BufReader fill: the inner reader pulls from the reader it was given ---- *)
Fill ==
  /\ pc \in {"loop", "upcall"} /\ ibuf = <<>>
  /\ \/ /\ obuf # <<>>
        /\ \E n \in TakeLens(obuf) :
             /\ ibuf' = SubSeq(obuf, 1, n) /\ obuf' = SubSeq(obuf, n + 1, Len(obuf))
        /\ UNCHANGED wire
     \/ /\ obuf = <<>> /\ wire # <<>>
        /\ \E n \in TakeLens(wire) :
             /\ ibuf' = SubSeq(wire, 1, n) /\ wire' = SubSeq(wire, n + 1, Len(wire))
        /\ UNCHANGED obuf
  /\ UNCHANGED <<reqs, trunc, mode, chunks, eof, msg, pc, cur, upg, tail, fed, out, upRx, hist>>

(* ---- read_until(NUL) ---- *)
Scan ==
  /\ pc = "loop" /\ ibuf # <<>>
  /\ IF HasZ(ibuf)
     THEN LET k == FirstZ(ibuf) IN
          /\ msg' = msg \o SubSeq(ibuf, 1, k) /\ ibuf' = SubSeq(ibuf, k + 1, Len(ibuf))
          /\ pc' = "parse"
     ELSE /\ msg' = msg \o ibuf /\ ibuf' = <<>> /\ UNCHANGED pc
  /\ UNCHANGED <<reqs, trunc, mode, chunks, wire, eof, obuf, cur, upg, tail, fed, out, upRx, hist>>

\* EOF: return what has been read of an incomplete message (possibly nothing) as the tail
ReadEof ==
  /\ pc = "loop" /\ ibuf = <<>> /\ obuf = <<>> /\ wire = <<>> /\ eof
  /\ tail' = msg /\ msg' = <<>> /\ pc' = "ret"
  /\ UNCHANGED <<reqs, trunc, mode, chunks, wire, eof, obuf, ibuf, cur, upg, fed, out, upRx, hist>>

(* ---- one complete message ---- *)
WellFramed(m, i) == m = MsgAtoms(i)

Parse ==
  /\ pc = "parse"
  /\ LET i == msg[Len(msg)][2] IN
     /\ cur' = i
     /\ IF i \in 1..Len(reqs) /\ WellFramed(msg, i) /\ reqs[i].k \notin Ref!MalformedKinds
        THEN pc' = "dispatch" /\ UNCHANGED out
        ELSE \* undecodable: Err, nothing written (garbled framing only arises under a Bug* constant)
             /\ pc' = "err"
             /\ out' = IF BugReplyOnMalformed
                       THEN Append(out, [req |-> i, cont |-> FALSE, err |-> "InvalidParameter", arg |-> "serde"])
                       ELSE out
  /\ UNCHANGED <<reqs, trunc, mode, chunks, wire, eof, obuf, ibuf, msg, upg, tail, fed, upRx, hist>>

Dispatch ==
  /\ pc = "dispatch"
  /\ LET r == reqs[cur]
         s == Ref!Serve(r)
     IN /\ out' = out \o Ref!Tag(s.items, cur)
        /\ msg' = <<>>
        /\ CASE r.k = "NoDot" /\ BugNoDotReturn ->
                  \* early `return Ok((Vec::new(), None))`: the inner buffer is abandoned
                  /\ tail' = <<>> /\ ibuf' = <<>> /\ pc' = "ret" /\ UNCHANGED upg
             [] s.after = "close" ->
                  /\ pc' = "err" /\ UNCHANGED <<tail, ibuf, upg>>
             [] s.after = "upgrade" ->
                  \* break out of the loop: return (buffer().to_vec(), Some(iface))
                  /\ upg' = TRUE /\ tail' = ibuf /\ ibuf' = <<>> /\ pc' = "ret"
             [] OTHER ->
                  /\ pc' = "loop" /\ UNCHANGED <<tail, ibuf, upg>>
  /\ UNCHANGED <<reqs, trunc, mode, chunks, wire, eof, obuf, cur, fed, upRx, hist>>

(* ---- upgraded: the interface's handler reads its reader to EOF ---- *)
UpRead ==
  /\ pc = "upcall" /\ ibuf # <<>>
  /\ upRx' = upRx \o ibuf /\ ibuf' = <<>>
  /\ UNCHANGED <<reqs, trunc, mode, chunks, wire, eof, obuf, msg, pc, cur, upg, tail, fed, out, hist>>

UpEof ==
  /\ pc = "upcall" /\ ibuf = <<>> /\ obuf = <<>> /\ wire = <<>> /\ eof
  /\ tail' = <<>> /\ pc' = "ret"
  /\ UNCHANGED <<reqs, trunc, mode, chunks, wire, eof, obuf, ibuf, msg, cur, upg, fed, out, upRx, hist>>

(* ---- returning to the caller ---- *)
RetMem ==
  /\ mode = "mem" /\ pc = "ret"
  \* the documented caller keeps ONLY the returned tail; the reader it handed in was a temporary over its buffer
  /\ wire' = <<>> /\ UNCHANGED tail
  /\ pc' = "outside"
  /\ hist' = Append(hist, [ev |-> "ret", tail |-> tail, upg |-> upg, nout |-> Len(out)])
  /\ UNCHANGED <<reqs, trunc, mode, chunks, eof, obuf, ibuf, msg, cur, upg, fed, out, upRx>>

ErrMem ==
  /\ mode = "mem" /\ pc = "err"
  /\ pc' = "closed"
  /\ hist' = Append(hist, [ev |-> "err", nout |-> Len(out)])
  /\ UNCHANGED <<reqs, trunc, mode, chunks, wire, eof, obuf, ibuf, msg, cur, upg, tail, fed, out, upRx>>

\* listen worker, Ok branch: keep the remainder of an upgrade in front of the stream, then probe
RetListen ==
  /\ mode = "listen" /\ pc = "ret"
  /\ obuf' = IF upg /\ ~BugDropUpgradeTail THEN tail \o obuf ELSE obuf
  /\ tail' = <<>>
  /\ pc' = "probe"
  /\ UNCHANGED <<reqs, trunc, mode, chunks, wire, eof, ibuf, msg, cur, upg, fed, out, upRx, hist>>

Probe ==
  /\ mode = "listen" /\ pc = "probe"
  /\ \/ /\ obuf # <<>> /\ pc' = "outside" /\ UNCHANGED <<obuf, wire>>
     \/ /\ obuf = <<>> /\ wire # <<>>
        /\ \E n \in TakeLens(wire) :
             /\ obuf' = SubSeq(wire, 1, n) /\ wire' = SubSeq(wire, n + 1, Len(wire))
        /\ pc' = "outside"
     \/ /\ obuf = <<>> /\ wire = <<>> /\ eof /\ pc' = "done" /\ UNCHANGED <<obuf, wire>>
  /\ UNCHANGED <<reqs, trunc, mode, chunks, eof, ibuf, msg, cur, upg, tail, fed, out, upRx, hist>>

\* listen worker, Err branch: shut this stream down, leave the loop
ErrListen ==
  /\ mode = "listen" /\ pc = "err"
  /\ pc' = "closed"
  /\ UNCHANGED <<reqs, trunc, mode, chunks, wire, eof, obuf, ibuf, msg, cur, upg, tail, fed, out, upRx, hist>>

Next ==
  \/ PeerWrite \/ PeerClose
  \/ EnterMem \/ EnterMemFlush \/ EnterListen
  \/ Fill \/ Scan \/ ReadEof \/ Parse \/ Dispatch
  \/ UpRead \/ UpEof
  \/ RetMem \/ ErrMem \/ RetListen \/ Probe \/ ErrListen

---------------------------------------------------------------------------
(* Properties *)

Finished ==
  \/ pc \in {"closed", "done"}
  \/ mode = "mem" /\ pc = "outside" /\ chunks = <<>> /\ ~(upg /\ tail # <<>>)

\* atoms that follow the terminator of request i in the whole stream
AfterReq(i) ==
  LET s == AllAtoms
      k == CHOOSE j \in 1..Len(s) : s[j] = <<"Z", i>>
  IN  SubSeq(s, k + 1, Len(s))

\* C01/C02/C04/C05/C06 in one statement: the machine refines the chunk-free reference
RefinesPrefix == IsPrefix(out, E.out)

RefinesFinal ==
  Finished =>
    /\ out = E.out
    /\ (E.end = "closed"   <=> pc = "closed")
    /\ (E.end = "upgraded" <=> upg)
    /\ (E.end = "upgraded" => upRx = AfterReq(E.at))
    /\ (E.end # "upgraded" => upRx = <<>>)

\* C02: the upgraded handler sees every byte after the upgrade request in order, exactly once
UpgradeExactlyOnce ==
  upg => IsPrefix(upRx, AfterReq(E.at))

\* C02: (mem) the tail handed back is exactly what follows the last complete message fed so far
RECURSIVE LastZ(_)
LastZ(s) == IF s = <<>> THEN 0 ELSE IF IsZ(s[Len(s)]) THEN Len(s) ELSE LastZ(SubSeq(s, 1, Len(s) - 1))

TailIsUnconsumedSuffix ==
  (mode = "mem" /\ pc = "outside" /\ ~upg /\ E.end = "open") =>
     tail = SubSeq(fed, LastZ(fed) + 1, Len(fed))

\* C01: replies are in request order
InOrder == Ref!InOrder(out)

\* C06: nothing is ever written for a malformed message
MalformedSilent ==
  \A j \in 1..Len(out) : reqs[out[j].req].k \notin Ref!MalformedKinds

\* C04
OnewaySilent == \A j \in 1..Len(out) : ~reqs[out[j].req].oneway

\* C05
ContinuesOnlyForMore == \A j \in 1..Len(out) : out[j].cont => reqs[out[j].req].more

\* nothing is served after the connection has been closed / upgraded
NothingAfterEnd ==
  E.end # "open" => \A j \in 1..Len(out) : out[j].req <= E.at

\* the model never gets stuck before it is Finished (every reachable non-final state has a successor)
NoStuck == Finished \/ ENABLED Next

=============================================================================
