------------------------------ MODULE ConnRef ------------------------------
(***************************************************************************)
(* Reference semantics of ONE varlink server connection.                   *)
(*                                                                         *)
(* No buffers, no chunks, no threads: a fold over the sequence of requests *)
(* the peer sent.  Anything that is equal to Expected(reqs) is therefore   *)
(* independent of segmentation / pipelining depth by construction (C02),   *)
(* answers in order exactly once (C01), is silent for oneway (C04), only   *)
(* uses `continues` for `more` (C05), contains malformed input (C06) and   *)
(* routes by interface name (C03, table Serve).                            *)
(*                                                                         *)
(* Bound to: VarlinkService::handle / call / built-in interface            *)
(* (varlink/src/lib.rs), Call::reply_struct / reply_parameters, generated  *)
(* dispatch (varlink_generator/src/lib.rs server_method_impls).            *)
(***************************************************************************)
EXTENDS Naturals, Sequences, FiniteSets, TLC

CONSTANTS
  BugOnewayReplies,     \* wrong design: reply writers ignore the oneway flag
  BugNoContinuesGate,   \* wrong design: continues replies written for non-more calls
  BugFirstDot           \* wrong design: method split at the first dot

---------------------------------------------------------------------------
(* Request kinds.  The concrete bytes of each kind are the harness's       *)
(* concretisation (harness/src/conn.rs: concretise()).                     *)

BuiltinKinds == {"GetInfo", "DescrSvc", "DescrKnown", "DescrUnknown", "DescrNoParams",
                 "DescrIllTyped", "SvcUnknownMethod"}
RouteKinds   == {"UnknownIface", "NoDot", "EmptyIface", "TrailingDot", "PrefixIface", "SuffixIface"}
GenKinds     == {"GenOk", "GenBadParams", "GenNoParams", "GenNoArgs", "GenNullParams",
                 "GenStream0", "GenStream2", "GenFail", "GenUp", "GenUnknownMethod", "GenExtraMember"}
MalformedKinds == {"BadJson", "BadUtf8", "WrongMemberType", "EmptyMsg", "NotObject", "NoMethod"}
ScriptKind   == "Script"

Kinds == BuiltinKinds \cup RouteKinds \cup GenKinds \cup MalformedKinds \cup {ScriptKind}

(* Script steps of a method implementation (C05):                          *)
(*   c1 / c0  set_continues(true / false)                                  *)
(*   r        reply, propagate an error with `?`                           *)
(*   R        reply, swallow an error and go on                            *)
(*   e        reply_error (custom error through reply_struct), propagate   *)
(*   u        to_upgraded()                                                *)
(*   x        return Err(...) from the method                              *)
\* "n": the standard helper reply_method_not_implemented (an error reply like "e", with the standard name and parameter)
Steps == {"c1", "c0", "r", "R", "e", "n", "u", "x"}

Req(k, more, oneway, upgrade, script) ==
  [k |-> k, more |-> more, oneway |-> oneway, upgrade |-> upgrade, script |-> script]

Item(cont, err, arg) == [cont |-> cont, err |-> err, arg |-> arg]

---------------------------------------------------------------------------
(* The reply gate (lib.rs reply_struct): what one reply attempt does.      *)
(*   "mismatch" : continues set but request has no `more` => error to the  *)
(*                caller, nothing written                                   *)
(*   "silent"   : oneway request => nothing written (intended behaviour)   *)
(*   "write"    : reply goes on the wire                                    *)
Gate(r, cont) ==
  IF cont /\ ~r.more /\ ~BugNoContinuesGate THEN "mismatch"
  ELSE IF r.oneway /\ ~BugOnewayReplies THEN "silent"
  ELSE "write"

(* library-originated single reply (no continues flag involved) *)
One(r, err, arg) ==
  IF r.oneway /\ ~BugOnewayReplies THEN <<>> ELSE <<Item(FALSE, err, arg)>>

---------------------------------------------------------------------------
(* Running a script.  State: position, continues flag, items written,      *)
(* per-step results (observed by the scripted interface), upgraded flag.   *)
RECURSIVE RunScript(_, _, _, _, _, _)
RunScript(r, pos, cont, items, results, upgraded) ==
  IF pos > Len(r.script)
  THEN [items |-> items, results |-> results,
        after |-> IF upgraded THEN "upgrade" ELSE "go"]
  ELSE LET s == r.script[pos] IN
    CASE s = "c1" -> RunScript(r, pos + 1, TRUE, items, Append(results, "set"), upgraded)
      [] s = "c0" -> RunScript(r, pos + 1, FALSE, items, Append(results, "set"), upgraded)
      [] s = "u"  -> RunScript(r, pos + 1, cont, items, Append(results, "set"), TRUE)
      [] s = "x"  -> [items |-> items, results |-> Append(results, "ret_err"), after |-> "close"]
      [] s \in {"r", "R", "e", "n"} ->
           LET g   == Gate(r, cont)
               it  == IF s = "n" THEN Item(cont, "MethodNotImplemented", "method")
                      ELSE Item(cont, IF s = "e" THEN "ScriptError" ELSE "", "step")
           IN  CASE g = "mismatch" ->
                      IF s = "R"
                      THEN RunScript(r, pos + 1, cont, items, Append(results, "mismatch"), upgraded)
                      ELSE [items |-> items, results |-> Append(results, "mismatch"),
                            after |-> "close"]
                 [] g = "silent" ->
                      RunScript(r, pos + 1, cont, items, Append(results, "ok"), upgraded)
                 [] OTHER ->
                      RunScript(r, pos + 1, cont, Append(items, it), Append(results, "ok"), upgraded)

---------------------------------------------------------------------------
(* Per-request decision table.                                              *)
(*   items : replies put on the wire for this request                       *)
(*   after : "go" (serve next request) | "close" (connection closed, no     *)
(*           further request is served) | "upgrade" (all following bytes go *)
(*           to the interface's upgraded handler)                           *)
Go(items)      == [items |-> items, after |-> "go", results |-> <<>>]
Close(items)   == [items |-> items, after |-> "close", results |-> <<>>]
Upgrade(items) == [items |-> items, after |-> "upgrade", results |-> <<>>]

StreamItems(r, k) ==
  \* the generated test interface's Stream method: k continues replies + final when `more`,
  \* error NeedsMore otherwise (the implementation checks wants_more() itself)
  IF r.more
  THEN IF r.oneway /\ ~BugOnewayReplies THEN <<>>
       ELSE [i \in 1..k |-> Item(TRUE, "", "stream")] \o <<Item(FALSE, "", "stream")>>
  ELSE One(r, "NeedsMore", "none")

Serve(r) ==
  CASE r.k = "GetInfo"          -> Go(One(r, "", "info"))
    [] r.k = "DescrSvc"         -> Go(One(r, "", "descr_svc"))
    [] r.k = "DescrKnown"       -> Go(One(r, "", "descr_known"))
    [] r.k = "DescrUnknown"     -> Go(One(r, "InvalidParameter", "interface"))
    [] r.k = "DescrNoParams"    -> Go(One(r, "InvalidParameter", "parameters"))
    [] r.k = "DescrIllTyped"    -> Close(<<>>)
    [] r.k = "SvcUnknownMethod" -> Go(One(r, "MethodNotFound", "method"))
    [] r.k = "UnknownIface"     -> Go(One(r, "InterfaceNotFound", "iface"))
    [] r.k = "NoDot"            -> Go(One(r, "InterfaceNotFound", "method"))
    [] r.k = "EmptyIface"       -> Go(One(r, "InterfaceNotFound", "iface"))
    [] r.k = "PrefixIface"      -> Go(One(r, "InterfaceNotFound", "iface"))
    [] r.k = "SuffixIface"      -> Go(One(r, "InterfaceNotFound", "iface"))
    [] r.k = "TrailingDot"      -> IF BugFirstDot THEN Go(One(r, "InterfaceNotFound", "iface"))
                                   ELSE Go(One(r, "MethodNotFound", "method"))
    [] r.k = "GenOk"            -> IF BugFirstDot THEN Go(One(r, "InterfaceNotFound", "iface"))
                                   ELSE Go(One(r, "", "pong"))
    [] r.k = "GenExtraMember"   -> Go(One(r, "", "pong"))
    [] r.k = "GenBadParams"     -> Close(One(r, "InvalidParameter", "serde"))
    [] r.k = "GenNullParams"    -> Go(One(r, "InvalidParameter", "parameters"))
    [] r.k = "GenNoParams"      -> Go(One(r, "InvalidParameter", "parameters"))
    [] r.k = "GenNoArgs"        -> Go(One(r, "", "empty"))
    [] r.k = "GenStream0"       -> Go(StreamItems(r, 0))
    [] r.k = "GenStream2"       -> Go(StreamItems(r, 2))
    [] r.k = "GenFail"          -> Go(One(r, "Failed", "reason"))
    [] r.k = "GenUp"            -> Upgrade(One(r, "", "tok"))
    [] r.k = "GenUnknownMethod" -> Go(One(r, "MethodNotFound", "method"))
    [] r.k \in MalformedKinds   -> Close(<<>>)
    [] r.k = ScriptKind         -> LET s == RunScript(r, 1, FALSE, <<>>, <<>>, FALSE)
                                   IN [items |-> s.items, after |-> s.after, results |-> s.results]

Tag(items, i) == [j \in 1..Len(items) |-> [req |-> i, cont |-> items[j].cont,
                                            err |-> items[j].err, arg |-> items[j].arg]]

---------------------------------------------------------------------------
(* Expected observable behaviour of a whole connection.                    *)
(*   out  : tagged reply items, in order                                    *)
(*   end  : "open" | "closed" | "upgraded"                                  *)
(*   at   : index of the request that closed / upgraded (0 if open)         *)
RECURSIVE Expected(_, _)
Expected(reqs, i) ==
  IF i > Len(reqs) THEN [out |-> <<>>, end |-> "open", at |-> 0]
  ELSE LET s    == Serve(reqs[i])
           mine == Tag(s.items, i)
       IN  CASE s.after = "close"   -> [out |-> mine, end |-> "closed", at |-> i]
             [] s.after = "upgrade" -> [out |-> mine, end |-> "upgraded", at |-> i]
             [] OTHER -> LET rest == Expected(reqs, i + 1)
                         IN  [rest EXCEPT !.out = mine \o rest.out]

ExpectedOf(reqs) == Expected(reqs, 1)

---------------------------------------------------------------------------
(* Properties of the reference semantics itself (checked by TLC over the   *)
(* enumerated request sequences, MC_ConnRef).                               *)

WellBehaved(r) ==
  \* a script that replies the way the protocol intends: no reply after the final one,
  \* and exactly one final reply unless it fails
  r.k # ScriptKind \/ r.script \in {<<"r">>, <<"c1", "r", "c0", "r">>, <<"c1", "r", "r", "c0", "r">>, <<"e">>,
                                    <<"c1","r","c0","e">>, <<"n">>}

InOrder(out) == \A a, b \in 1..Len(out) : a < b => out[a].req <= out[b].req

ItemsOf(out, i) == SelectSeq(out, LAMBDA it : it.req = i)

ExactlyOneFinal(reqs) ==
  LET e == ExpectedOf(reqs) IN
  \A i \in 1..Len(reqs) :
     LET its  == ItemsOf(e.out, i)
         r    == reqs[i]
         served == (e.end = "open") \/ i < e.at \/ (i = e.at /\ e.end = "upgraded")
     IN  /\ (r.oneway => its = <<>>)                                   \* C04
         /\ (\A j \in 1..Len(its) : its[j].cont => r.more)             \* C05
         /\ (served /\ ~r.oneway /\ WellBehaved(r) /\ r.k \notin MalformedKinds /\
               ~(r.k = ScriptKind /\ Serve(r).after = "close") =>
               /\ Len(its) >= 1
               /\ ~its[Len(its)].cont
               /\ \A j \in 1..(Len(its) - 1) : its[j].cont)
         /\ (e.end # "open" /\ i > e.at => its = <<>>)

=============================================================================
