------------------------------ MODULE MC_Route ------------------------------
EXTENDS Route, Json

CONSTANTS MaxIfaces, Emit

VARIABLES cfg, m

\* names built to collide: shared prefixes, differing last element, hyphen / digit / upper case,
\* near-misses of the built-in name
\* (every element but the first may begin with a digit: "a.3d", "a.7-zip")
Pool == { <<"a", "b">>, <<"a", "b", "c">>, <<"a", "bc">>, <<"a", "b-c">>, <<"A", "b">>, <<"a", "b1">>, <<"a", "3d">>, <<"a", "7-zip">>,
          <<"org", "varlink", "servic">>, <<"org", "varlink", "service", "x">> }

Names == Pool \cup {Svc}

MethodsOf(n) ==
  { n \o <<"Hit">>, n \o <<"Nope">>, n, n \o <<"">>, <<"">> \o n, n \o <<"x", "Hit">>,
    Front(n) \o <<"Hit">>, n \o <<"", "Hit">>, <<n[1]>>, n \o <<"GetInfo">> }

Methods == UNION {MethodsOf(n) : n \in Names}
             \cup { <<"">>, <<"", "">>, <<"nodot">>, <<"", "Hit">>, <<"zz", "Hit">>,
                    Svc \o <<"GetInfo">>, Svc \o <<"GetInterfaceDescription">>, Svc \o <<"Nope">> }

Configs == {c \in SUBSET Pool : Cardinality(c) <= MaxIfaces}

Init == cfg \in Configs /\ m \in Methods
Next == UNCHANGED <<cfg, m>>
Spec == Init /\ [][Next]_<<cfg, m>>

InvExact    == ExactMatchOnly(cfg, m)
InvBuiltin  == BuiltinFirst(cfg, m)
InvMonotone == \A x \in Pool : Monotone(cfg, {x}, m)

DescrNames == << <<"a", "b">>, <<"a", "b", "c">>, <<"a", "bc">>, <<"a", "b-c">>, <<"A", "b">>, <<"a", "b1">>, <<"a", "3d">>, <<"a", "7-zip">>,
                 <<"org", "varlink", "servic">>, <<"org", "varlink", "service", "x">>, Svc, <<"zz", "q">>, <<"a">>, <<"">> >>
DescrArgs == [i \in 1..Len(DescrNames) |-> [k |-> "name", name |-> DescrNames[i]]]
               \o << [k |-> "absent", name |-> <<>>], [k |-> "illtyped", name |-> <<>>] >>

SetToSeq(S) == CHOOSE s \in [1..Cardinality(S) -> S] : \A i, j \in 1..Cardinality(S) : i # j => s[i] # s[j]

EmitCase ==
  Emit => PrintT(<<"REPLAY", ToJson([cfg |-> SetToSeq(cfg), m |-> m, route |-> Route(cfg, m),
                     descr |-> [i \in 1..Len(DescrArgs) |-> [arg |-> DescrArgs[i], res |-> Descr(cfg, DescrArgs[i])]] ])>>)
=============================================================================
