--------------------------- MODULE MC_MultiConn ---------------------------
EXTENDS MultiConn
CONSTANT MaxLen
Init == MInit(MaxLen)
Spec == MSpec(MaxLen)
\* no connection ever closes (EnvRelease disabled) — the hardest environment for IdleDoesNotBlock
NoCloseNext == MNext /\ mayFinish' \subseteq {j \in Jobs : cstate'[j] = "closed"}
FairNoClose == Init /\ [][NoCloseNext]_mallvars /\ WF_mallvars(MWorkerSteps) /\ WF_mallvars(MAcc)
=============================================================================
