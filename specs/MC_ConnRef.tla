---------------------------- MODULE MC_ConnRef ----------------------------
(* Bounded instance of ConnRef: every request sequence up to a length bound *)
(* is one initial state; TLC checks the reference semantics' own properties *)
(* and (REPLAY configs) prints each sequence together with Expected() as    *)
(* one JSON line for the conformance harness.                                *)
EXTENDS ConnRef, Json

CONSTANTS MaxLen,        \* sequences of length 0..MaxLen
          AlphabetName,  \* "full" | "rep" | "oneway" | "scripts" | "malformed"
          Emit           \* TRUE: print REPLAY lines

VARIABLE reqs

None(k)   == Req(k, FALSE, FALSE, FALSE, <<>>)
More(k)   == Req(k, TRUE, FALSE, FALSE, <<>>)
Oneway(k) == Req(k, FALSE, TRUE, FALSE, <<>>)
MoreOneway(k) == Req(k, TRUE, TRUE, FALSE, <<>>)
UpFlag(k) == Req(k, FALSE, FALSE, TRUE, <<>>)
Scr(s, more, oneway) == Req(ScriptKind, more, oneway, FALSE, s)
\* oneway together with upgrade (and more): every flag is independent, oneway silences whatever else is asked for
OnewayUp(k, more) == Req(k, more, TRUE, TRUE, <<>>)
OnewayUpSet == {OnewayUp(k, m) : k \in {"GenOk", "GetInfo", "UnknownIface", "GenStream2", "GenNoParams"}, m \in BOOLEAN}

WellFormedKinds == BuiltinKinds \cup RouteKinds \cup GenKinds

RepScripts == { <<"r">>, <<"c1", "r", "c0", "r">>, <<"c1", "r">>, <<"e">>, <<"x">>, <<"c1", "R", "c0", "r">>, <<"n">>, <<"c1", "n">>,
                \* upgrading methods: the reply comes before or after to_upgraded()
                <<"r", "u">>, <<"u", "r">> }

AlphaFull ==
     {None(k) : k \in WellFormedKinds \cup MalformedKinds}
  \cup {More(k) : k \in WellFormedKinds}
  \cup {Oneway(k) : k \in WellFormedKinds \ {"GenUp"}}
  \cup {MoreOneway(k) : k \in {"GenStream2", "GetInfo", "NoDot"}}
  \cup {UpFlag(k) : k \in {"GenOk", "GenUp", "GetInfo", "UnknownIface"}}
  \cup OnewayUpSet
  \cup {Scr(s, m, o) : s \in RepScripts, m \in BOOLEAN, o \in BOOLEAN}

\* two representatives per control class (see DESIGN 3: sizing rule)
AlphaRep ==
     {None(k) : k \in {"GenOk", "GetInfo",                 \* reply and continue
                       "UnknownIface", "NoDot", "GenNoParams", \* error and continue
                       "GenBadParams",                      \* error and close
                       "DescrIllTyped", "BadJson",          \* close silently
                       "GenUp"}}                            \* upgrade
  \cup {More(k) : k \in {"GenStream2", "GenStream0", "GenOk"}}  \* stream
  \cup {Oneway(k) : k \in {"GenOk", "NoDot", "GetInfo", "GenBadParams", "UnknownIface"}}
  \cup {Scr(<<"c1", "r">>, FALSE, FALSE), Scr(<<"c1", "r", "c0", "r">>, TRUE, FALSE)}  \* gate failure / scripted stream

AlphaOneway ==
     {Oneway(k) : k \in WellFormedKinds \ {"GenUp"}}
  \cup {MoreOneway(k) : k \in {"GenStream2", "GetInfo", "NoDot"}}
  \cup {Scr(s, m, TRUE) : s \in RepScripts, m \in BOOLEAN}
  \cup {None(k) : k \in {"GenOk", "UnknownIface"}} \cup {More("GenStream2")}
  \cup OnewayUpSet

\* all scripts over the reply-relevant steps up to length 4, every flag combination (C05)
ScriptSteps == {"c1", "c0", "r", "R", "e"}
AllScripts(n) == UNION {[1..m -> ScriptSteps] : m \in 0..n}
AlphaScripts ==
  {Scr(s, m, o) : s \in AllScripts(4), m \in BOOLEAN, o \in BOOLEAN} \cup {None("GenOk")}

\* the same up to length 3: small enough for every PAIR of scripted requests (C05 thorough)
AlphaScripts3 ==
  {Scr(s, m, o) : s \in AllScripts(3), m \in BOOLEAN, o \in BOOLEAN} \cup {None("GenOk")}

AlphaMalformed ==
  {None(k) : k \in MalformedKinds} \cup
  {None(k) : k \in {"GenOk", "GetInfo", "UnknownIface", "NoDot"}} \cup {More("GenStream2"), Oneway("GenOk")}

Alphabet ==
  CASE AlphabetName = "full"      -> AlphaFull
    [] AlphabetName = "rep"       -> AlphaRep
    [] AlphabetName = "oneway"    -> AlphaOneway
    [] AlphabetName = "scripts"   -> AlphaScripts
    [] AlphabetName = "scripts3"  -> AlphaScripts3
    [] AlphabetName = "malformed" -> AlphaMalformed

Init == reqs \in UNION {[1..n -> Alphabet] : n \in 0..MaxLen}
Next == UNCHANGED reqs
Spec == Init /\ [][Next]_reqs

E == ExpectedOf(reqs)

RefInOrder    == InOrder(E.out)
RefOneFinal   == ExactlyOneFinal(reqs)
RefEndSane    == /\ (E.end = "open" => E.at = 0)
                 /\ (E.end # "open" => E.at \in 1..Len(reqs))

Results == [i \in 1..Len(reqs) |-> Serve(reqs[i]).results]

EmitCase ==
  Emit => PrintT(<<"REPLAY", ToJson([reqs |-> reqs, out |-> E.out, end |-> E.end, at |-> E.at,
                                     results |-> Results])>>)
=============================================================================
