-------------------------------- MODULE Addr --------------------------------
(***************************************************************************)
(* Address classification shared by client and server, the socket-         *)
(* activation decision of a server, and the postcondition of a client that *)
(* spawns a socket-activated service (C16).                                *)
(* Bound to varlink/src/client.rs (varlink_connect, varlink_exec),         *)
(* varlink/src/server.rs (activation_listener, Listener::new).             *)
(***************************************************************************)
EXTENDS Naturals, Sequences, FiniteSets, TLC

CONSTANT BugIgnorePid,     \* wrong design: activation honoured whatever LISTEN_PID says
         BugFirstFdAlways  \* wrong design: several fds but LISTEN_FDNAMES ignored: always fd 3

(* ---- addresses ---- *)
\* abstract address: [scheme, params]; the harness concretises (e.g. scheme "unixabs" -> "unix:@name")
Schemes == {"tcp", "unix", "unixabs", "TCP-upper", "Unix-upper", "tcpd", "unixs", "nocolon-tcp", "nocolon-unix", "empty", "garbage",
            "colon-only", "space-before"}
Addresses == [scheme : Schemes, params : BOOLEAN]

Classify(a) ==
  CASE a.scheme = "tcp" -> "tcp"
    [] a.scheme = "unix" -> "unixPath"
    [] a.scheme = "unixabs" -> "unixAbstract"
    [] OTHER -> "invalid"

\* `;parameters` after a unix address are ignored for connecting / binding
EffectivePath(a) == IF a.scheme \in {"unix", "unixabs"} THEN "path-without-params" ELSE "n/a"

(* ---- socket activation: which descriptor a server adopts ---- *)
\* environment as seen by the server process
FdsVals == {"absent", "garbage", "0", "1", "2", "3"}
PidVals == {"absent", "own", "other", "garbage"}
NamesVals == {"absent", "none-varlink", "varlink-first", "varlink-second", "varlink-third", "empty"}
NFds(e) == CASE e.fds = "1" -> 1 [] e.fds = "2" -> 2 [] e.fds = "3" -> 3 [] OTHER -> 0
NameIndex(e) == CASE e.names = "varlink-first" -> 1 [] e.names = "varlink-second" -> 2 [] e.names = "varlink-third" -> 3 [] OTHER -> 0
\* environments whose LISTEN_FDNAMES names more descriptors than LISTEN_FDS passes are inconsistent (don't-care)
Envs == {e \in [fds : FdsVals, pid : PidVals, names : NamesVals] : NameIndex(e) <= (IF NFds(e) = 0 THEN 3 ELSE NFds(e))}

\* 0 = no activation (bind the given address), otherwise the descriptor number to adopt
Activation(e) ==
  IF NFds(e) = 0 THEN 0
  ELSE IF e.pid # "own" /\ ~BugIgnorePid THEN 0
  ELSE IF NFds(e) = 1 THEN 3
  ELSE IF BugFirstFdAlways THEN 3
  ELSE CASE e.names = "varlink-first" -> 3
         [] e.names = "varlink-second" -> 4
         [] e.names = "varlink-third" -> 5
         [] OTHER -> 0

\* a server honours activation only when LISTEN_PID names it
OnlyOwnPid == \A e \in Envs : Activation(e) # 0 => (e.pid = "own" /\ NFds(e) >= 1)
\* the adopted descriptor is one of the passed ones
InRange == \A e \in Envs : Activation(e) # 0 => Activation(e) \in 3..(2 + NFds(e))

(* ---- a client spawning an activated service: what the child must see ---- *)
SpawnPost == [fd3_is_listening_socket |-> TRUE, LISTEN_FDS |-> "1", LISTEN_FDNAMES |-> "varlink", LISTEN_PID |-> "child-pid",
              VARLINK_ADDRESS |-> "unix-address-of-that-socket"]
=============================================================================
