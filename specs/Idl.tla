-------------------------------- MODULE Idl --------------------------------
(***************************************************************************)
(* The varlink interface definition language, independent of the parser's  *)
(* peg source (C10, C11, C12; program source for C08, C09):                *)
(*   1. interface-name automaton over character classes                     *)
(*   2. token-level grammar as a recursive recogniser (Accepts)             *)
(*   3. abstract syntax: types, members, validity, duplicate analysis       *)
(* Strings are atomic in TLC: names are sequences of class symbols, token   *)
(* sequences are sequences of token kinds; rendering to text is the         *)
(* harness's concretisation (harness/src/idl.rs).                           *)
(***************************************************************************)
EXTENDS Naturals, Sequences, FiniteSets, TLC

CONSTANTS BugTrailingHyphenFirst,   \* wrong design: first element may end with a hyphen (varlink_grammar.rs as found)
          BugNoDupCheckAcrossKinds  \* wrong design: duplicates only detected within one member kind

---------------------------------------------------------------------------
(* 1. Interface names.  Character classes: "l" lower-case letter, "U" upper-case letter, "d" digit, "-" hyphen, *)
(*    "." dot, "x" any other character.                                                                          *)

Classes == {"l", "U", "d", "-", ".", "x"}

RECURSIVE SplitDots(_, _, _)
SplitDots(s, i, cur) ==
  IF i > Len(s) THEN <<cur>>
  ELSE IF s[i] = "." THEN <<cur>> \o SplitDots(s, i + 1, <<>>)
  ELSE SplitDots(s, i + 1, Append(cur, s[i]))

Alnum(c) == c \in {"l", "U", "d"}
ElementOk(e) ==
  /\ e # <<>>
  /\ \A i \in 1..Len(e) : Alnum(e[i]) \/ e[i] = "-"
  /\ e[1] # "-" /\ e[Len(e)] # "-"

\* "accept" | "reject" | "dontcare"
\* dontcare: an upper-case letter inside the FIRST element after its first character (the published grammar and the
\* reference implementations disagree; the pinned suite only fixes `Com.example`)
NameVerdict(s) ==
  LET es == SplitDots(s, 1, <<>>) IN
  IF Len(es) < 2 THEN "reject"
  ELSE IF \E k \in 1..Len(es) : ~ElementOk(es[k]) THEN
         IF BugTrailingHyphenFirst /\ (\A k \in 2..Len(es) : ElementOk(es[k])) /\ es[1] # <<>> /\ es[1][1] \in {"l", "U"}
            /\ (\A i \in 2..Len(es[1]) : es[1][i] \in {"l", "d", "-"})
         THEN "accept" ELSE "reject"
  ELSE IF es[1][1] \notin {"l", "U"} THEN "reject"
  ELSE IF \E i \in 2..Len(es[1]) : es[1][i] = "U" THEN "dontcare"
  ELSE "accept"

---------------------------------------------------------------------------
(* 1b. Words: field names / enum elements and member names, character by character.                          *)
(*     field name  = letter ( "_"? (letter | digit) )*        (no leading, trailing or doubled underscore)  *)
(*     member name = upper-case letter (letter | digit)*      (type, method and error names)                *)
(* Character classes: "l" lower-case letter, "U" upper-case letter, "d" digit, "_" underscore, "o" anything  *)
(* else that is not white space (hyphen, dot, non-ASCII letter ...).                                          *)
WordClasses == {"l", "U", "d", "_", "o"}
IsLetter(c) == c \in {"l", "U"}
IsAlnum(c) == c \in {"l", "U", "d"}
FieldVerdict(w) ==
  IF Len(w) = 0 THEN "reject"
  ELSE IF /\ IsLetter(w[1])
          /\ \A i \in 2..Len(w) : IsAlnum(w[i]) \/ (w[i] = "_" /\ i < Len(w) /\ IsAlnum(w[i + 1]))
       THEN "accept" ELSE "reject"
MemberNameVerdict(w) ==
  IF Len(w) = 0 THEN "reject"
  ELSE IF w[1] = "U" /\ \A i \in 2..Len(w) : IsAlnum(w[i]) THEN "accept" ELSE "reject"

---------------------------------------------------------------------------
(* 2. Token-level grammar.                                                                                        *)
(* Tokens: "interface" "IFACE" "NL" "type" "method" "error" "Name" "fld" "(" ")" "," ":" "->" "?" "[]" "[string]" *)
(*         "bool" "int" "float" "string" "object" "junk"                                                          *)
(* NL is a line break (or a comment line); blanks between tokens are implicit.  A line break is allowed wherever  *)
(* a blank is, EXCEPT directly before a comma and inside a type expression after a prefix operator; at least one  *)
(* is required after the interface name and between members.                                                      *)
(* Each P*(t, S) maps a set S of positions (index of the next unread token) to the set of positions after the     *)
(* construct; the empty set means "no parse".                                                                      *)

Tokens == {"interface", "IFACE", "NL", "type", "method", "error", "Name", "fld", "(", ")", ",", ":", "->", "?", "[]",
           "[string]", "bool", "int", "float", "string", "object", "junk"}

BaseTypes == {"bool", "int", "float", "string", "object", "Name"}

At(t, p, k) == p <= Len(t) /\ t[p] = k

Eat(t, S, k) == {p + 1 : p \in {q \in S : At(t, q, k)}}

\* every word is a legal field name / enum element (there are no reserved words), including upper-case names
FieldLike == {"fld", "Name", "interface", "type", "method", "error", "bool", "int", "float", "string", "object"}
EatField(t, S) == {p + 1 : p \in {q \in S : q <= Len(t) /\ t[q] \in FieldLike}}

RECURSIVE SkipNLFrom(_, _)
SkipNLFrom(t, p) == IF At(t, p, "NL") THEN {p} \cup SkipNLFrom(t, p + 1) ELSE {p}
SkipNL(t, S) == UNION {SkipNLFrom(t, p) : p \in S}          \* zero or more line breaks

RECURSIVE PType(_, _, _), PStruct(_, _, _), PEnum(_, _, _), PFields(_, _, _), PEnumElts(_, _, _), PTypeNoOpt(_, _, _)

\* depth d bounds the nesting of anonymous structs / prefix operators (the enumerated inputs stay below it)
PBase(t, S, d) ==
  UNION {Eat(t, S, b) : b \in BaseTypes}
    \cup (IF d > 0 THEN PStruct(t, S, d - 1) \cup PEnum(t, S, d - 1) ELSE {})

PTypeNoOpt(t, S, d) ==
  PBase(t, S, d)
    \cup (IF d > 0 THEN PType(t, Eat(t, S, "[]"), d - 1) \cup PType(t, Eat(t, S, "[string]"), d - 1) ELSE {})

PType(t, S, d) ==
  IF S = {} THEN {}
  ELSE PTypeNoOpt(t, S, d) \cup PTypeNoOpt(t, Eat(t, S, "?"), d)

\* fields: fld [NL] : [NL] Type ( "," [NL] fld ... )*   — no line break between the type and the comma
PFields(t, S, d) ==
  IF S = {} THEN {}
  ELSE LET afterName  == SkipNL(t, EatField(t, SkipNL(t, S)))
           afterColon == SkipNL(t, Eat(t, afterName, ":"))
           afterType  == PType(t, afterColon, d)
           more       == Eat(t, afterType, ",")
       IN  afterType \cup (IF more = {} THEN {} ELSE PFields(t, more, d))

PStruct(t, S, d) ==
  IF S = {} THEN {}
  ELSE LET open == SkipNL(t, Eat(t, S, "(")) IN
       Eat(t, open, ")") \cup Eat(t, SkipNL(t, PFields(t, open, d)), ")")

PEnumElts(t, S, d) ==
  IF S = {} THEN {}
  ELSE LET one  == EatField(t, S)
           more == SkipNL(t, Eat(t, one, ","))
       IN  one \cup (IF more = {} THEN {} ELSE PEnumElts(t, more, d))

PEnum(t, S, d) ==
  IF S = {} THEN {}
  ELSE LET open == SkipNL(t, Eat(t, S, "(")) IN
       Eat(t, SkipNL(t, PEnumElts(t, open, d)), ")")

Depth == 6

PMember(t, S) ==
  IF S = {} THEN {}
  ELSE LET s0 == SkipNL(t, S)
           nameAfter(kw) == SkipNL(t, Eat(t, SkipNL(t, Eat(t, s0, kw)), "Name"))
           ty == PStruct(t, nameAfter("type"), Depth) \cup PEnum(t, nameAfter("type"), Depth)
           er == PStruct(t, nameAfter("error"), Depth)
           mi == SkipNL(t, PStruct(t, nameAfter("method"), Depth))
           me == PStruct(t, SkipNL(t, Eat(t, mi, "->")), Depth)
       IN  ty \cup er \cup me

\* members separated by at least one line break
RECURSIVE PMembers(_, _)
PMembers(t, S) ==
  IF S = {} THEN {}
  ELSE LET one == PMember(t, S)
           sep == Eat(t, one, "NL")
       IN  one \cup (IF sep = {} THEN {} ELSE PMembers(t, sep))

Accepts(t) ==
  LET start == SkipNL(t, {1})
      hdr   == Eat(t, SkipNL(t, Eat(t, start, "interface")), "IFACE")
      body  == PMembers(t, Eat(t, hdr, "NL"))
  IN  (Len(t) + 1) \in SkipNL(t, body)

---------------------------------------------------------------------------
(* 3. Abstract syntax.                                                                                            *)
(* type:   [c |-> "bool" | "int" | "float" | "string" | "object"]                                                 *)
(*         [c |-> "ref", n |-> TypeName]   [c |-> "arr" | "dict" | "opt", e |-> type]                             *)
(*         [c |-> "struct", f |-> Seq([n |-> FieldName, t |-> type])]   [c |-> "enum", v |-> Seq(FieldName)]      *)
(* member: [k |-> "type" | "method" | "error", n |-> Name, doc |-> DocTag, a |-> type (struct/enum), b |-> type]  *)
(* iface:  [name |-> seq of elements, doc |-> DocTag, members |-> Seq(member)]                                    *)

Plain(c) == [c |-> c]
Ref(n) == [c |-> "ref", n |-> n]
Arr(e) == [c |-> "arr", e |-> e]
Dict(e) == [c |-> "dict", e |-> e]
Opt(e) == [c |-> "opt", e |-> e]
Struct(f) == [c |-> "struct", f |-> f]
Enum(v) == [c |-> "enum", v |-> v]
Fld(n, t) == [n |-> n, t |-> t]

\* `?` only directly in front of a non-optional type
RECURSIVE TypeOk(_)
TypeOk(t) ==
  CASE t.c \in {"bool", "int", "float", "string", "object", "ref"} -> TRUE
    [] t.c \in {"arr", "dict"} -> TypeOk(t.e)
    [] t.c = "opt" -> t.e.c # "opt" /\ TypeOk(t.e)
    [] t.c = "struct" -> (\A i \in 1..Len(t.f) : TypeOk(t.f[i].t))
    [] t.c = "enum" -> Len(t.v) >= 1

RECURSIVE RefsOf(_)
RefsOf(t) ==
  CASE t.c = "ref" -> {t.n}
    [] t.c \in {"arr", "dict", "opt"} -> RefsOf(t.e)
    [] t.c = "struct" -> UNION {RefsOf(t.f[i].t) : i \in 1..Len(t.f)}
    [] OTHER -> {}

\* does a type contain an anonymous struct or enum (a string set `[string]()` is not one)
RECURSIVE HasAnon(_)
HasAnon(t) ==
  CASE t.c \in {"struct", "enum"} -> TRUE
    [] t.c = "dict" -> IF t.e.c = "struct" /\ t.e.f = <<>> THEN FALSE ELSE HasAnon(t.e)
    [] t.c \in {"arr", "opt"} -> HasAnon(t.e)
    [] OTHER -> FALSE

MemberNames(ms, kind) == {ms[i].n : i \in {j \in 1..Len(ms) : ms[j].k = kind}}

\* names defined more than once across methods, types and errors
DupNames(ms) ==
  {ms[i].n : i \in {j \in 1..Len(ms) : \E k \in 1..Len(ms) : k # j /\ ms[k].n = ms[j].n
                                         /\ (BugNoDupCheckAcrossKinds => ms[k].k = ms[j].k)}}

\* generator-level validity (C09): references resolve, sibling names distinct
RECURSIVE SiblingsDistinct(_)
SiblingsDistinct(t) ==
  CASE t.c = "struct" -> /\ \A i, j \in 1..Len(t.f) : i # j => t.f[i].n # t.f[j].n
                         /\ \A i \in 1..Len(t.f) : SiblingsDistinct(t.f[i].t)
    [] t.c = "enum" -> \A i, j \in 1..Len(t.v) : i # j => t.v[i] # t.v[j]
    [] t.c \in {"arr", "dict", "opt"} -> SiblingsDistinct(t.e)
    [] OTHER -> TRUE

AllTypesOf(ms) == {ms[i].a : i \in 1..Len(ms)} \cup {ms[i].b : i \in {j \in 1..Len(ms) : ms[j].k = "method"}}

\* "finitely sized" (a premise of C09): no typedef contains itself BY VALUE.  A reference behind [] or [string] is a heap
\* indirection in the generated Rust (Vec / map) and ends the containment; `?T` (Option<T>) and struct members do not.
RECURSIVE InlineRefs(_)
InlineRefs(t) ==
  CASE t.c = "ref" -> {t.n}
    [] t.c = "opt" -> InlineRefs(t.e)
    [] t.c = "struct" -> UNION {InlineRefs(t.f[i].t) : i \in 1..Len(t.f)}
    [] OTHER -> {}
TypedefOf(ms, n) == (CHOOSE i \in 1..Len(ms) : ms[i].k = "type" /\ ms[i].n = n)
RECURSIVE ContainedByValue(_, _, _)
ContainedByValue(ms, S, fuel) ==   \* names reachable by value from the names in S (including S)
  LET known == {n \in S : n \in MemberNames(ms, "type")}
      next == S \cup UNION {InlineRefs(ms[TypedefOf(ms, n)].a) : n \in known}
  IN IF fuel = 0 \/ next = S THEN S ELSE ContainedByValue(ms, next, fuel - 1)
FinitelySized(ms) ==
  \A n \in MemberNames(ms, "type") :
     n \notin ContainedByValue(ms, InlineRefs(ms[TypedefOf(ms, n)].a), Len(ms))

Valid(ms) ==
  /\ DupNames(ms) = {}
  /\ \A t \in AllTypesOf(ms) : TypeOk(t) /\ SiblingsDistinct(t) /\ RefsOf(t) \subseteq MemberNames(ms, "type")
=============================================================================
