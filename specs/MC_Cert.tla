------------------------------ MODULE MC_Cert ------------------------------
(* Clients walk through the sequence; at each call a client may deviate. Behaviours are bounded by MaxCalls. *)
EXTENDS Cert, Json
CONSTANTS MaxCalls, Emit, StepsUsed

\* to keep the model small a client only calls the step it is at, the next one (out of order), or Start
At(c) == IF ctx[c] = "none" THEN "Start" ELSE ctx[c]
Cand(c) == {At(c)} \cup (IF ctx[c] \notin {"none", "End"} THEN {NextOf(ctx[c])} ELSE {}) \cup {"Start"}

MNext ==
  /\ Len(trace) < MaxCalls
  /\ \E c \in Clients, known \in BOOLEAN, dev \in Devs, mode \in {"call", "more", "oneway", "upgrade"} :
       \E step \in (Cand(c) \cap StepsUsed) :
          /\ (known => ctx[c] # "none" \/ step = "Start")
          /\ (step = "Start" => known)
          /\ Call(c, step, known, dev, mode)
MSpec == CeInit /\ [][MNext]_cevars

EmitCase == (Emit /\ Len(trace) = MaxCalls) => PrintT(<<"REPLAY", ToJson(trace)>>)
=============================================================================
