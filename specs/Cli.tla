-------------------------------- MODULE Cli --------------------------------
(***************************************************************************)
(* `varlink call [--more] ADDRESS/METHOD ARGS` as an observation function  *)
(* on top of the client semantics (Client.tla: Outcome, iteration shape):  *)
(*   stdout  the parameters of every successful reply, in order            *)
(*   exit    0 iff every expected reply arrived and none was an error      *)
(*   stderr  names the error (and its parameters)                          *)
(* and the split of the command-line argument at the LAST slash.           *)
(* Bound to varlink-cli/src/main.rs: varlink_call, print_call_ret.         *)
(***************************************************************************)
EXTENDS Naturals, Sequences, FiniteSets, TLC

CONSTANT BugStopAtFirst,     \* wrong design: --more prints only the first reply
         BugExitZeroOnError, \* wrong design: an error reply still exits 0
         BugSplitFirstSlash, \* wrong design: address/method split at the first slash
         BugBufferUntilEnd   \* wrong design: standard output is written when the call is over, not when a reply arrives

(* A service behaviour for one call: replies it sends (in order), then optionally closes the connection. *)
(* reply: [cont, err \in {"", "std", "custom"}, par \in BOOLEAN (parameters present)]                    *)
R(cont, err, par) == [cont |-> cont, err |-> err, par |-> par]

(* What the tool prints / returns.  out: indices of the replies whose parameters appear on stdout. *)
RECURSIVE Iter(_, _, _, _)
Iter(script, i, closes, out) ==
  IF i > Len(script)
  THEN \* the service stopped sending: a reply is still expected -> the call fails (connection closed / hangs until closed)
       [out |-> out, exit |-> 1, err |-> "closed", erri |-> 0]
  ELSE LET r == script[i] IN
       IF r.err # "" THEN [out |-> out, exit |-> IF BugExitZeroOnError THEN 0 ELSE 1, err |-> r.err, erri |-> i]
       ELSE IF r.cont /\ ~BugStopAtFirst THEN Iter(script, i + 1, closes, Append(out, i))
       ELSE [out |-> Append(out, i), exit |-> 0, err |-> "", erri |-> 0]

Observe(script, more) ==
  IF more THEN Iter(script, 1, TRUE, <<>>)
  ELSE \* plain call: exactly one reply is expected
       IF script = <<>> THEN [out |-> <<>>, exit |-> 1, err |-> "closed", erri |-> 0]
       ELSE LET r == script[1] IN
            IF r.err # "" THEN [out |-> <<>>, exit |-> IF BugExitZeroOnError THEN 0 ELSE 1, err |-> r.err, erri |-> 1]
            ELSE [out |-> <<1>>, exit |-> 0, err |-> "", erri |-> 0]

(* ADDRESS/METHOD: split at the last slash; segs = the argument cut at every '/' *)
Split(segs) ==
  IF Len(segs) < 2 THEN [ok |-> FALSE, addr |-> <<>>, method |-> ""]
  ELSE IF BugSplitFirstSlash
       THEN [ok |-> TRUE, addr |-> <<segs[1]>>, method |-> segs[2]]
       ELSE [ok |-> TRUE, addr |-> SubSeq(segs, 1, Len(segs) - 1), method |-> segs[Len(segs)]]

---------------------------------------------------------------------------
(* Ways of reaching the service from the command line and the three read-only commands (beyond C20's statement;   *)
(* the same client semantics underneath): `varlink [-R resolver | --activate CMD | --bridge CMD] info|help|call`. *)
Forms == {"direct", "resolver", "activate", "bridge"}
Commands == {"info", "help", "call"}
\* known: the interface asked for is registered with the resolver / provided by the service
Reach(form, known) == IF form = "resolver" /\ ~known THEN "not-found" ELSE "connected"
CmdObserve(cmd, form, known) ==
  IF Reach(form, known) = "not-found" THEN [exit |-> 1, out |-> "nothing", err |-> "not found"]
  ELSE CASE cmd = "info" -> [exit |-> 0, out |-> "service-info", err |-> ""]
         [] cmd = "help" -> IF known THEN [exit |-> 0, out |-> "formatted-description", err |-> ""]
                                     ELSE [exit |-> 1, out |-> "nothing", err |-> "InvalidParameter"]
         [] cmd = "call" -> IF known THEN [exit |-> 0, out |-> "reply", err |-> ""]
                                     ELSE [exit |-> 1, out |-> "nothing", err |-> "InterfaceNotFound"]
\* a command prints something on stdout exactly when it succeeds
OutIffSuccess(cmd, form, known) == LET o == CmdObserve(cmd, form, known) IN (o.exit = 0) <=> (o.out # "nothing")

(* A stream that is still open (monitor-style methods): what is on standard output once the k-th reply has arrived. *)
(* Output is a function of what has arrived: every reply is printed when it arrives, not when the call is over.     *)
RECURSIVE UpTo(_, _)
UpTo(seq, k) == IF seq = <<>> THEN <<>> ELSE IF Head(seq) <= k THEN <<Head(seq)>> \o UpTo(Tail(seq), k) ELSE <<>>
Shown(script, more, k) ==
  IF BugBufferUntilEnd /\ k < Len(script) THEN <<>> ELSE UpTo(Observe(script, more).out, k)
ShownAsArrived(script, more) ==
  \A k \in 0..Len(script) : Shown(script, more, k) = Observe(SubSeq(script, 1, k), more).out

ExitZeroIffAllGood(script, more) ==
  LET o == Observe(script, more) IN
  (o.exit = 0) <=> (o.err = "" /\ \A k \in 1..Len(o.out) : script[o.out[k]].err = "")

StdoutInOrder(script, more) ==
  LET o == Observe(script, more) IN \A a, b \in 1..Len(o.out) : a < b => o.out[a] < o.out[b]

\* with --more every successful reply up to and including the final one is printed
MorePrintsAll(script) ==
  LET o == Observe(script, TRUE) IN
  \A i \in 1..Len(script) :
     ((\A j \in 1..i : script[j].err = "") /\ (\A j \in 1..(i - 1) : script[j].cont)) =>
        \E k \in 1..Len(o.out) : o.out[k] = i
=============================================================================
