------------------------------ MODULE MC_Addr ------------------------------
EXTENDS Addr, Json
CONSTANTS Which, Emit
VARIABLE x
Universe == IF Which = "addr" THEN Addresses ELSE Envs
Init == x \in Universe
Next == UNCHANGED x
Spec == Init /\ [][Next]_x
Laws == OnlyOwnPid /\ InRange
Case == IF Which = "addr" THEN [t |-> "addr", a |-> x, class |-> Classify(x)]
        ELSE [t |-> "env", e |-> x, fd |-> Activation(x)]
EmitCase == Emit => PrintT(<<"REPLAY", ToJson(Case)>>)
=============================================================================
