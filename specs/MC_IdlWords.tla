---------------------------- MODULE MC_IdlWords ----------------------------
(* every string over one representative per character class up to MaxLen, with the verdicts of the two word rules *)
EXTENDS Idl, Json
CONSTANTS MaxLen, Emit
VARIABLE w
Init == w \in UNION {[1..n -> WordClasses] : n \in 1..MaxLen}
Next == UNCHANGED w
Spec == Init /\ [][Next]_w
\* sanity of the rules themselves: a member name is also a field name; an accepted field name has no "__", no "_" at either end
WordSane ==
  /\ (MemberNameVerdict(w) = "accept" => FieldVerdict(w) = "accept")
  /\ (FieldVerdict(w) = "accept" => (w[1] # "_" /\ w[Len(w)] # "_" /\ \A i \in 1..(Len(w) - 1) : ~(w[i] = "_" /\ w[i + 1] = "_")))
EmitCase == Emit => PrintT(<<"REPLAY", ToJson([w |-> w, field |-> FieldVerdict(w), member |-> MemberNameVerdict(w)])>>)
=============================================================================
