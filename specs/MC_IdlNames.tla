---------------------------- MODULE MC_IdlNames ----------------------------
(* every string over one representative per character class up to MaxLen, with the verdict of the name rules *)
EXTENDS Idl, Json
CONSTANTS MaxLen, Emit
VARIABLE s
Init == s \in UNION {[1..n -> Classes] : n \in 0..MaxLen}
Next == UNCHANGED s
Spec == Init /\ [][Next]_s
\* sanity of the automaton itself: an accepted name has >= 2 elements, none empty / starting / ending with a hyphen
AcceptSane == (NameVerdict(s) = "accept") =>
                LET es == SplitDots(s, 1, <<>>) IN Len(es) >= 2 /\ \A k \in 1..Len(es) : ElementOk(es[k])
EmitCase == Emit => PrintT(<<"REPLAY", ToJson([s |-> s, v |-> NameVerdict(s)])>>)
=============================================================================
