-------------------------------- MODULE Wire --------------------------------
(***************************************************************************)
(* JSON shape of the protocol's message and helper types (C17):            *)
(* Request, Reply, ServiceInfo, GetInterfaceDescriptionReply, string sets, *)
(* string maps.  A data-shape specification: there is no transition        *)
(* system; TLC enumerates the value universes and checks the round-trip    *)
(* laws on the abstract encoding, and every enumerated value / object is   *)
(* replayed through the real Serialize / Deserialize implementations       *)
(* (to_string, to_vec, to_value; from_str, from_slice, from_value).        *)
(*                                                                         *)
(* Abstract JSON: an object is a function from member names to value tags; *)
(* value tags are atoms whose concrete JSON the harness supplies           *)
(* ("Jnull" is JSON null, "Jtrue"/"Jfalse" booleans, others opaque).       *)
(***************************************************************************)
EXTENDS Naturals, Sequences, FiniteSets, TLC

Tri == {"unset", "t", "f"}            \* Option<bool>
ParamAtoms == {"Jnull", "Jint", "Jstr", "Jobj", "Jnested", "Jarr"}
Methods == {"org.example.a.M", "", "nodot", "org.varlink.service.GetInfo"}
ErrNamesW == {"unset", "org.varlink.service.InvalidParameter", "com.example.E"}

TriJ(x) == IF x = "t" THEN "Jtrue" ELSE "Jfalse"

(* ---------------- Request ---------------- *)
Requests == [more : Tri, oneway : Tri, upgrade : Tri, method : Methods, parameters : ParamAtoms \cup {"unset"}]

\* members present in the serialised object
SerRequest(v) ==
  [k \in ({"method"} \cup {f \in {"more", "oneway", "upgrade"} : v[f] # "unset"}
                     \cup (IF v.parameters # "unset" THEN {"parameters"} ELSE {})) |->
     CASE k = "method" -> v.method
       [] k = "parameters" -> v.parameters
       [] OTHER -> TriJ(v[k])]

\* objects a peer may send for a request: each optional member absent, null, or a value
ReqObjects ==
  {o \in [ {"more", "oneway", "upgrade", "parameters", "method"} -> {"absent", "Jnull", "Jtrue", "Jfalse", "Jobj", "Jint"} \cup Methods ] :
      /\ o.method \in Methods
      /\ o.more \in {"absent", "Jnull", "Jtrue", "Jfalse"}
      /\ o.oneway \in {"absent", "Jnull", "Jtrue"}
      /\ o.upgrade \in {"absent", "Jfalse"}
      /\ o.parameters \in {"absent", "Jnull", "Jobj", "Jint"}}

FlagOf(x) == CASE x = "Jtrue" -> "t" [] x = "Jfalse" -> "f" [] OTHER -> "unset"

DeRequest(o) ==
  [more |-> FlagOf(o.more), oneway |-> FlagOf(o.oneway), upgrade |-> FlagOf(o.upgrade), method |-> o.method,
   parameters |-> IF o.parameters \in {"absent", "Jnull"} THEN "unset" ELSE o.parameters]

\* a value and its image after a round trip are equal up to "optional null == unset"
NormReq(v) == [v EXCEPT !.parameters = IF @ = "Jnull" THEN "unset" ELSE @]

\* members of an abstract object that carry information (null optionals dropped)
Sig(o) == {<<k, o[k]>> : k \in {x \in DOMAIN o : o[x] \notin {"absent", "Jnull"}}}

(* ---------------- Reply ---------------- *)
Replies == [continues : Tri, error : ErrNamesW, parameters : ParamAtoms \cup {"unset"}]
SerReply(v) ==
  [k \in ((IF v.continues # "unset" THEN {"continues"} ELSE {}) \cup (IF v.error # "unset" THEN {"error"} ELSE {})
          \cup (IF v.parameters # "unset" THEN {"parameters"} ELSE {})) |->
     CASE k = "continues" -> TriJ(v.continues) [] k = "error" -> v.error [] OTHER -> v.parameters]
NormReply(v) == [v EXCEPT !.parameters = IF @ = "Jnull" THEN "unset" ELSE @]

(* ---------------- string sets and maps ---------------- *)
KeyPool == {"", "a", "e-acute", "quote", "backslash", "newline", "long"}
\* a string set is written as an object mapping each element to an empty object
SerSet(s) == [k \in s |-> "Jempty"]
DeSet(o) == DOMAIN o
SerMap(m) == m
DeMap(o) == o

---------------------------------------------------------------------------
(* laws checked by TLC over the enumerated universes *)
LawReqRoundTrip(v) == DeRequest([k \in {"more", "oneway", "upgrade", "parameters", "method"} |->
                                   IF k \in DOMAIN SerRequest(v) THEN SerRequest(v)[k] ELSE "absent"]) = NormReq(v)
LawReqUnsetOmitted(v) == \A f \in {"more", "oneway", "upgrade", "parameters"} : (v[f] = "unset") <=> (f \notin DOMAIN SerRequest(v))
LawReqObjEquiv(o) == Sig(SerRequest(DeRequest(o))) = Sig(o)
LawSetRoundTrip(s) == DeSet(SerSet(s)) = s /\ \A k \in s : SerSet(s)[k] = "Jempty"
=============================================================================
