------------------------------ MODULE MC_Wire ------------------------------
EXTENDS Wire, Json
CONSTANTS Which, MaxKeys, Emit
VARIABLE x

SetToSeq(S) == CHOOSE s \in [1..Cardinality(S) -> S] : \A i, j \in 1..Cardinality(S) : i # j => s[i] # s[j]
ObjToSeq(o) == LET ks == SetToSeq(DOMAIN o) IN [i \in 1..Len(ks) |-> <<ks[i], o[ks[i]]>>]

KeySets == {s \in SUBSET KeyPool : Cardinality(s) <= MaxKeys}
MapVals == {"Jint", "Jstr"}
StrPool == {"", "plain", "quote-nonascii"}

Universe ==
  CASE Which = "request" -> Requests
    [] Which = "reqobj"  -> ReqObjects
    [] Which = "reply"   -> Replies
    [] Which = "set"     -> KeySets
    [] Which = "map"     -> UNION {[s -> MapVals] : s \in KeySets}
    [] Which = "info"    -> [vendor : StrPool, product : StrPool, version : StrPool, url : StrPool,
                             interfaces : UNION {[1..n -> StrPool \cup {"org.varlink.service"}] : n \in 0..2}]
    [] Which = "descr"   -> {"unset", "", "text"}

Init == x \in Universe
Next == UNCHANGED x
Spec == Init /\ [][Next]_x

Laws ==
  CASE Which = "request" -> LawReqRoundTrip(x) /\ LawReqUnsetOmitted(x)
    [] Which = "reqobj"  -> LawReqObjEquiv(x)
    [] Which = "reply"   -> TRUE
    [] Which = "set"     -> LawSetRoundTrip(x)
    [] Which = "map"     -> TRUE
    [] Which = "info"    -> TRUE
    [] Which = "descr"   -> TRUE

Case ==
  CASE Which = "request" -> [t |-> "request", v |-> x, ser |-> ObjToSeq(SerRequest(x)), norm |-> NormReq(x)]
    [] Which = "reqobj"  -> [t |-> "reqobj", o |-> ObjToSeq(x), de |-> DeRequest(x)]
    [] Which = "reply"   -> [t |-> "reply", v |-> x, ser |-> ObjToSeq(SerReply(x)), norm |-> NormReply(x)]
    [] Which = "set"     -> [t |-> "set", v |-> SetToSeq(x)]
    [] Which = "map"     -> [t |-> "map", v |-> ObjToSeq(x)]
    [] Which = "info"    -> [t |-> "info", v |-> x]
    [] Which = "descr"   -> [t |-> "descr", v |-> x]

EmitCase == Emit => PrintT(<<"REPLAY", ToJson(Case)>>)
=============================================================================
