------------------------------- MODULE Client -------------------------------
(***************************************************************************)
(* A client Connection shared by threads, and the MethodCall objects that  *)
(* use it (varlink/src/lib.rs: Connection, MethodCall::{send, call, more,  *)
(* oneway, recv}, Iterator::next, From<Reply> for ErrorKind).              *)
(*                                                                         *)
(* Grain: one action per critical section of the code.                     *)
(*   Send(t, c, mode, script)  one atomic step under the connection's      *)
(*        write lock: consume the call object; MethodCalledAlready if it   *)
(*        was consumed before; ConnectionBusy if the connection's reader / *)
(*        writer are lent out; else write the request and take the reader  *)
(*        (unless oneway) and writer.                                       *)
(*   RecvRead(t, c)   blocking read of one reply, outside the lock         *)
(*   RecvReturn(t, c) under the lock: after a reply without `continues`    *)
(*        the reader and writer go back to the connection                  *)
(*   Next(t, c)       Iterator::next: None unless `continues`, else recv   *)
(*                                                                         *)
(* The service is scripted: a non-oneway request carries the list of       *)
(* replies the service will send for it (k continues replies and a final   *)
(* one); the service answers requests in order.                            *)
(***************************************************************************)
EXTENDS Naturals, Sequences, FiniteSets, TLC

CONSTANTS Threads, Objs,
          BugReturnSlotsOnContinues,  \* wrong design: reader/writer handed back after every reply
          BugOnewayTakesReader,       \* wrong design: oneway moves the reader into the call object
          BugBusyAfterWrite,          \* wrong design: the request is written before the busy check
          BugIterStopsEarly,          \* wrong design: iteration ends when the first continues reply is seen
          BugErrorKindSwap            \* wrong design: MethodNotFound / MethodNotImplemented swapped

Standard == {"InterfaceNotFound", "InvalidParameter", "MethodNotFound", "MethodNotImplemented"}
ErrNames == Standard \cup {"Custom"}
Pars == {"ok", "missing", "illtyped"}

Reply(cont, err, par) == [cont |-> cont, err |-> err, par |-> par]

(* What the caller gets for a reply (lib.rs recv + From<Reply> for ErrorKind) *)
Swap(e) == IF BugErrorKindSwap
           THEN CASE e = "MethodNotFound" -> "MethodNotImplemented"
                  [] e = "MethodNotImplemented" -> "MethodNotFound"
                  [] OTHER -> e
           ELSE e
Outcome(r) ==
  IF r.err = "" THEN (IF r.par = "ok" THEN <<"Ok">> ELSE <<"Err", "PayloadError">>)
  ELSE IF r.err \in Standard THEN <<"Err", Swap(r.err), IF r.par = "ok" THEN "name" ELSE "">>
  ELSE <<"Err", "VarlinkErrorReply", r.par>>

VARIABLES
  free,       \* the connection holds its reader and writer
  readerGone, \* (only under BugOnewayTakesReader) the reader was moved away by a oneway call
  obj,        \* call objects: [armed, owns, cont]
  pipe,       \* replies on their way to the client: [tag |-> object they answer, r |-> reply]
  wire,       \* requests the service has received: [c, mode]
  tpc,        \* per thread: <<"idle">> | <<"read", c>> | <<"ret", c, reply>>
  oscript,    \* script each object was sent with
  delivered,  \* [to |-> object that consumed the reply, tag |-> object the reply answers]
  hist        \* results of completed operations: [t, op, c, mode, res]

cvars == <<free, readerGone, obj, pipe, wire, tpc, oscript, delivered, hist>>

CInit ==
  /\ free = TRUE /\ readerGone = FALSE
  /\ obj = [c \in Objs |-> [armed |-> TRUE, owns |-> FALSE, cont |-> FALSE]]
  /\ pipe = <<>> /\ wire = <<>>
  /\ tpc = [t \in Threads |-> <<"idle">>]
  /\ delivered = <<>> /\ hist = <<>> /\ oscript = [c \in Objs |-> <<>>]

Done(t, op, c, mode, script, res) ==
  hist' = Append(hist, [t |-> t, op |-> op, c |-> c, mode |-> mode, script |-> script, res |-> res])

Tagged(c, script) == [i \in 1..Len(script) |-> [tag |-> c, r |-> script[i]]]

ConnFree == free /\ ~readerGone

(* ---- send: call / more / oneway, one critical section ---- *)
Send(t, c, mode, script) ==
  /\ tpc[t] = <<"idle">>
  /\ LET setcont == (mode = "more") IN      \* more() sets `continues` before it tries to send
     IF ~obj[c].armed
     THEN /\ Done(t, "send", c, mode, script, <<"Err", "MethodCalledAlready">>)
          /\ obj' = [obj EXCEPT ![c].cont = IF setcont THEN TRUE ELSE @]
          /\ UNCHANGED <<free, readerGone, pipe, wire, tpc, delivered, oscript>>
     ELSE IF ~ConnFree
     THEN /\ Done(t, "send", c, mode, script, <<"Err", "ConnectionBusy">>)
          /\ obj' = [obj EXCEPT ![c].armed = FALSE, ![c].cont = IF setcont THEN TRUE ELSE @]
          /\ wire' = IF BugBusyAfterWrite THEN Append(wire, [c |-> c, mode |-> mode]) ELSE wire
          /\ UNCHANGED <<free, readerGone, pipe, tpc, delivered, oscript>>
     ELSE /\ wire' = Append(wire, [c |-> c, mode |-> mode])
          /\ oscript' = [oscript EXCEPT ![c] = script]
          /\ IF mode = "oneway"
             THEN /\ obj' = [obj EXCEPT ![c].armed = FALSE]
                  /\ readerGone' = BugOnewayTakesReader
                  /\ Done(t, "send", c, mode, script, <<"Ok">>)
                  /\ UNCHANGED <<free, pipe, tpc>>
             ELSE /\ obj' = [obj EXCEPT ![c].armed = FALSE, ![c].owns = TRUE, ![c].cont = setcont]
                  /\ free' = FALSE
                  /\ pipe' = pipe \o Tagged(c, script)       \* the scripted service answers in order
                  /\ UNCHANGED readerGone
                  /\ IF mode = "more"
                     THEN Done(t, "send", c, mode, script, <<"Ok">>) /\ UNCHANGED tpc
                     ELSE tpc' = [tpc EXCEPT ![t] = <<"read", c, "call">>] /\ UNCHANGED hist
          /\ UNCHANGED delivered

(* ---- Iterator::next ---- *)
Next(t, c) ==
  /\ tpc[t] = <<"idle">>
  /\ IF ~obj[c].cont
     THEN Done(t, "next", c, "", <<>>, <<"None">>) /\ UNCHANGED <<free, readerGone, obj, pipe, wire, tpc, delivered, oscript>>
     ELSE IF ~obj[c].owns
     THEN Done(t, "next", c, "", <<>>, <<"Err", "IteratorOldReply">>) /\ UNCHANGED <<free, readerGone, obj, pipe, wire, tpc, delivered, oscript>>
     ELSE tpc' = [tpc EXCEPT ![t] = <<"read", c, "next">>] /\ UNCHANGED <<free, readerGone, obj, pipe, wire, delivered, hist, oscript>>

(* ---- recv ---- *)
RecvRead(t) ==
  /\ tpc[t][1] = "read"
  /\ LET c == tpc[t][2]  op == tpc[t][3] IN
     /\ pipe # <<>>
     /\ LET m == Head(pipe) IN
        /\ pipe' = Tail(pipe)
        /\ delivered' = Append(delivered, [to |-> c, tag |-> m.tag])
        /\ IF m.r.cont /\ ~BugReturnSlotsOnContinues
           THEN /\ obj' = [obj EXCEPT ![c].cont = ~BugIterStopsEarly]
                /\ tpc' = [tpc EXCEPT ![t] = <<"idle">>]
                /\ Done(t, op, c, "", oscript[c], Outcome(m.r))
           ELSE /\ obj' = [obj EXCEPT ![c].cont = m.r.cont]
                /\ tpc' = [tpc EXCEPT ![t] = <<"ret", c, op, m.r>>]
                /\ UNCHANGED hist
  /\ UNCHANGED <<free, readerGone, wire, oscript>>

RecvReturn(t) ==
  /\ tpc[t][1] = "ret"
  /\ LET c == tpc[t][2]  op == tpc[t][3]  r == tpc[t][4] IN
     /\ free' = TRUE
     /\ obj' = [obj EXCEPT ![c].owns = FALSE]
     /\ tpc' = [tpc EXCEPT ![t] = <<"idle">>]
     /\ Done(t, op, c, "", oscript[c], Outcome(r))
  /\ UNCHANGED <<readerGone, pipe, wire, delivered, oscript>>

---------------------------------------------------------------------------
(* Properties (C07, client halves of C04 / C05) *)

Owners == {c \in Objs : obj[c].owns}

\* at most one call owns the stream, and the connection is free exactly when nobody does
OneOwner == Cardinality(Owners) <= 1 /\ (free => Owners = {}) /\ (~free => Cardinality(Owners) = 1)

\* a reply is never delivered to a call other than the one that requested it
ReplyToRequester == \A i \in 1..Len(delivered) : delivered[i].to = delivered[i].tag

\* a failed send (busy / already called) writes nothing; a successful one writes exactly one request
BusyWritesNothing ==
  [][\A t \in Threads :
       (Len(hist') = Len(hist) + 1 /\ hist'[Len(hist')].op = "send" /\ hist'[Len(hist')].res[1] = "Err")
          => wire' = wire]_cvars

\* a call object reaches the wire at most once
SendOnce == \A c \in Objs : Cardinality({i \in 1..Len(wire) : wire[i].c = c}) <= 1

\* oneway: returns after sending, consumes no reply, leaves the connection free
OnewayConsumesNothing ==
  \A i \in 1..Len(delivered) : \A k \in 1..Len(wire) : (wire[k].c = delivered[i].to) => wire[k].mode # "oneway"

\* after the final reply has been handed over the connection is usable again
ReusableAfterFinal == (pipe = <<>> /\ (\A t \in Threads : tpc[t] = <<"idle">>) /\ Owners = {}) => ConnFree

\* a `more` iteration yields every continues reply in order, then the final reply, then ends:
\* the results the calls of object c have seen so far are the outcomes of a prefix of its script
ResultsOf(c) == SelectSeq(hist, LAMBDA e : e.c = c /\ e.op \in {"next", "call"} /\ e.res # <<"None">> /\ e.res # <<"Err", "IteratorOldReply">>)
=============================================================================
