------------------------------ MODULE MC_Pool ------------------------------
EXTENDS Pool, Json

CONSTANT Emit
VARIABLE h   \* history of actions (replay generation only)

Act(name, who) == h' = Append(h, [a |-> name, w |-> who, workers |-> workers', ctr |-> ctr', queued |-> Len(queue'),
                                  running |-> Cardinality({w \in Wids : wst'[w] = "running"})])

HNext ==
  \/ AccCount /\ Act("acc_count", 0)
  \/ AccSend /\ Act("acc_send", 0)
  \/ AccDecide /\ Act("acc_decide", 0)
  \/ \E w \in Wids : \/ WRecv(w) /\ Act("w_recv", w)
                     \/ WCount(w) /\ Act("w_count", w)
                     \/ WStart(w) /\ Act("w_start", w)
                     \/ WFinish(w) /\ Act("w_finish", w)
                     \/ WUncount(w) /\ Act("w_uncount", w)
  \/ \E j \in Jobs : EnvRelease(j) /\ Act("release", j)
  \/ \E j \in Jobs : EnvCrash(j) /\ Act("crash", j)
  \/ DropSend /\ Act("drop_send", 0)
  \/ DropJoined /\ Act("drop_joined", 0)

HSpec == PInit /\ h = <<>> /\ [][HNext]_<<pvars, h>>

PlainNext == PNext /\ UNCHANGED h
PlainSpec == PInit /\ h = <<>> /\ [][PlainNext]_<<pvars, h>>
PlainFair == PlainSpec /\ WF_<<pvars, h>>(WorkerSteps /\ UNCHANGED h) /\ WF_<<pvars, h>>((AccSend \/ AccDecide) /\ UNCHANGED h)

ViewNoH == pvars

Done == apc = "dropped"
EmitCase == (Emit /\ Done) => PrintT(<<"REPLAY", ToJson([initial |-> Initial, max |-> Max, njobs |-> NJobs, h |-> h])>>)
=============================================================================
