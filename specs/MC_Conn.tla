------------------------------ MODULE MC_Conn ------------------------------
(* Bounded instances of Conn: every request sequence over an alphabet up to *)
(* MaxLen x truncated-or-not x every segmentation of the atom stream x both *)
(* callers.                                                                 *)
EXTENDS Conn, Json

CONSTANTS MaxLen, AlphabetName, Modes, Emit, MaxCuts

VARIABLE plan   \* the segmentation chosen in Init (never changes)

None(k)   == Ref!Req(k, FALSE, FALSE, FALSE, <<>>)
More(k)   == Ref!Req(k, TRUE, FALSE, FALSE, <<>>)
Oneway(k) == Ref!Req(k, FALSE, TRUE, FALSE, <<>>)
Scr(s, more, oneway) == Ref!Req("Script", more, oneway, FALSE, s)

\* one or two representatives per control class
AlphaRep ==
  { None("GenOk"),                       \* reply and continue
    None("UnknownIface"), None("NoDot"), \* error and continue
    None("GenBadParams"),                \* error reply, then close
    None("BadJson"),                     \* malformed: close silently
    None("GenUp"),                       \* upgrade
    More("GenStream2"),                  \* stream
    Oneway("GenOk"), Oneway("NoDot"),    \* oneway
    Scr(<<"c1", "r">>, FALSE, FALSE) }   \* reply-gate failure: close, nothing written

AlphaSmall == { None("GenOk"), None("NoDot"), None("BadJson"), None("GenUp"), More("GenStream2"), Oneway("GenOk") }

AlphaWide ==
  AlphaRep \cup
  { None("GetInfo"), None("DescrIllTyped"), None("GenNoParams"), More("GenOk"), Oneway("GenBadParams"),
    Oneway("UnknownIface"), None("EmptyMsg"), Scr(<<"c1", "r", "c0", "r">>, TRUE, FALSE), Scr(<<"x">>, FALSE, FALSE),
    Scr(<<"r", "u">>, FALSE, FALSE) }

Alphabet == CASE AlphabetName = "rep" -> AlphaRep
              [] AlphabetName = "small" -> AlphaSmall
              [] AlphabetName = "wide" -> AlphaWide

MCInit ==
  /\ reqs \in UNION {[1..n -> Alphabet] : n \in 0..MaxLen}
  /\ trunc \in BOOLEAN
  /\ mode \in Modes
  /\ \E c \in {x \in SUBSET (1..(Len(Stream(reqs, trunc)) - 1)) : Cardinality(x) <= MaxCuts} :
        chunks = Cut(Stream(reqs, trunc), c, 1)
  /\ plan = chunks
  /\ Init

Terminated == Finished /\ UNCHANGED <<vars, plan>>

MCNext == (Next /\ UNCHANGED plan) \/ Terminated

MCSpec == MCInit /\ [][MCNext]_<<vars, plan>>

\* history is a function of the path only; hide it from the fingerprint in property runs
ViewNoHist == <<reqs, trunc, mode, chunks, wire, eof, obuf, ibuf, msg, pc, cur, upg, tail, fed, out, upRx, plan>>

EmitCase ==
  (Emit /\ Finished) =>
     PrintT(<<"REPLAY", ToJson([reqs |-> reqs, trunc |-> trunc, mode |-> mode, plan |-> plan, hist |-> hist,
                                out |-> out, upRx |-> upRx, end |-> E.end, at |-> E.at,
                                final |-> pc, tail |-> tail,
                                results |-> [i \in 1..Len(reqs) |-> Ref!Serve(reqs[i]).results]])>>)
=============================================================================
