------------------------------- MODULE MC_Cli -------------------------------
EXTENDS Cli, Json
CONSTANTS MaxK, Emit
VARIABLES script, more

FormCases == [cmd : Commands, form : Forms, known : BOOLEAN]
FormsOk == \A c \in FormCases : OutIffSuccess(c.cmd, c.form, c.known)
CmdSeq == <<"info", "help", "call">>
FormSeq == <<"direct", "resolver", "activate", "bridge">>
FormCaseAt(k) == [cmd |-> CmdSeq[((k - 1) % 3) + 1], form |-> FormSeq[(((k - 1) \div 3) % 4) + 1], known |-> (k <= 12)]
FormList == [k \in 1..24 |-> [c |-> FormCaseAt(k), obs |-> CmdObserve(FormCaseAt(k).cmd, FormCaseAt(k).form, FormCaseAt(k).known)]]

Cont == R(TRUE, "", TRUE)
Finals == {R(FALSE, "", TRUE), R(FALSE, "", FALSE), R(FALSE, "std", TRUE), R(FALSE, "custom", TRUE), R(FALSE, "custom", FALSE),
           R(TRUE, "custom", TRUE)}
\* k continues replies, then a final reply, or nothing more (the service closes mid-stream)
Scripts == {[i \in 1..(k + 1) |-> IF i <= k THEN Cont ELSE f] : k \in 0..MaxK, f \in Finals}
              \cup {[i \in 1..k |-> Cont] : k \in 0..MaxK}

Init == script \in Scripts /\ more \in BOOLEAN
Next == UNCHANGED <<script, more>>
Spec == Init /\ [][Next]_<<script, more>>

InvExit == ExitZeroIffAllGood(script, more)
InvOrder == StdoutInOrder(script, more)
InvAll == MorePrintsAll(script)
InvShown == more => ShownAsArrived(script, more)
EmitCase == Emit => PrintT(<<"REPLAY", ToJson([script |-> script, more |-> more, obs |-> Observe(script, more)])>>)
EmitForms == (Emit /\ script = <<>> /\ ~more) => PrintT(<<"REPLAY", ToJson([forms |-> FormList])>>)
=============================================================================
