----------------------------- MODULE MC_IdlAst -----------------------------
(* Bounded enumeration of interface definitions as abstract syntax (Idl.tla section 3).                  *)
(*   Mode "types"  : every type expression of the pool up to TypeDepth in every parameter position        *)
(*   Mode "shapes" : every sequence of up to MaxMembers member templates, every doc tag combination        *)
(*   Mode "dups"   : every sequence of 2..3 members with names from a 2-name pool (collisions)             *)
EXTENDS Idl, Json

CONSTANTS Mode, TypeDepth, MaxMembers, Emit

VARIABLE ast

Base == {Plain("bool"), Plain("int"), Plain("float"), Plain("string"), Plain("object"), Ref("T1")}

RECURSIVE Pool(_)
Pool(n) ==
  IF n = 0 THEN Base
  ELSE LET P == Pool(n - 1) IN
       P \cup {Arr(t) : t \in P} \cup {Dict(t) : t \in P} \cup {Opt(t) : t \in {u \in P : u.c # "opt"}}
         \cup {Struct(<<Fld("a", t)>>) : t \in P}
         \cup {Struct(<<>>), Enum(<<"one">>), Enum(<<"one", "two", "three">>)}
         \cup {Struct(<<Fld("type", Plain("int")), Fld("b_2", t)>>) : t \in Base}

Docs == {"none", "one", "multi", "crlf", "tabcont", "u2028", "ctlend"}

Member(k, n, doc, a, b) == [k |-> k, n |-> n, doc |-> doc, a |-> a, b |-> b]
NoType == Struct(<<>>)

Iface(doc, ms) == [name |-> <<"org", "example", "t-1">>, doc |-> doc, members |-> ms]

\* an anonymous type among an error's parameters is finding F5; such a t gets a program of its own (T1 + the error), so that
\* the program exercising t in the other three positions is expected to compile cleanly and nothing hides behind F5
TypesCases ==
  {Iface("one", << Member("type", "T1", "none", Struct(<<Fld("x", Plain("int"))>>), NoType),
                   Member("method", "M1", "one", Struct(<<Fld("f", t)>>), Struct(<<Fld("g", t), Fld("h", Plain("bool"))>>)),
                   Member("error", "E1", "none", Struct(<<Fld("e", IF HasAnon(t) THEN Plain("int") ELSE t)>>), NoType),
                   Member("type", "T2", "multi", Struct(<<Fld("interface", t), Fld("y", Opt(Plain("string")))>>), NoType) >>)
     : t \in Pool(TypeDepth)}
  \cup
  {Iface("one", << Member("type", "T1", "none", Struct(<<Fld("x", Plain("int"))>>), NoType),
                   Member("error", "E1", "none", Struct(<<Fld("e", t)>>), NoType) >>)
     : t \in {u \in Pool(TypeDepth) : HasAnon(u)}}

(* Mode "stacked": two and three qualifiers (?, [], [string]) stacked in front of an anonymous struct / enum (and of a plain type):  *)
(* at this depth the general pool is too large for the quick tier, and the renderer / generator treat "qualifier of a qualifier" *)
(* of something breakable on its own code path                                                                                  *)
Quals == {"arr", "dict", "opt"}
Q(k, t) == CASE k = "arr" -> Arr(t) [] k = "dict" -> Dict(t) [] k = "opt" -> Opt(t)
StackInner == {Struct(<<Fld("a", Plain("int")), Fld("b", Plain("string"))>>), Enum(<<"one", "two", "three">>),
               Struct(<<Fld("s", Struct(<<Fld("z", Plain("bool"))>>))>>), Plain("string")}
QPairs == {p \in Quals \X Quals : ~(p[1] = "opt" /\ p[2] = "opt")}
QTriples == {p \in Quals \X Quals \X Quals : ~(p[1] = "opt" /\ p[2] = "opt") /\ ~(p[2] = "opt" /\ p[3] = "opt")}
Stacked == {Q(p[1], Q(p[2], i)) : p \in QPairs, i \in StackInner}
        \cup {Q(p[1], Q(p[2], Q(p[3], i))) : p \in QTriples,
                 i \in {Struct(<<Fld("a", Plain("int")), Fld("b", Plain("string"))>>), Enum(<<"one", "two", "three">>)}}
StackedCases ==
  {Iface("one", << Member("type", "T1", "none", Struct(<<Fld("x", Plain("int"))>>), NoType),
                   Member("method", "M1", "one", Struct(<<Fld("f", t)>>), Struct(<<Fld("g", t), Fld("h", Plain("bool"))>>)),
                   Member("type", "T2", "multi", Struct(<<Fld("interface", t), Fld("y", Opt(Plain("string")))>>), NoType) >>)
     : t \in Stacked}

(* Mode "recursive": typedefs that refer to themselves or to each other.  Behind [] / [string] (also under ?) the type is     *)
(* finitely sized and everything the properties say applies; by value (`?Node`, a member of type Node) it is not, and C09    *)
(* does not speak about it (the parser and the formatter still do: C10, C11).                                                 *)
NodeUse == Member("method", "Walk", "one", Struct(<<Fld("root", Ref("Node"))>>), Struct(<<Fld("nodes", Arr(Ref("Node"))), Fld("n", Plain("int"))>>))
RecTypes ==
  { <<Member("type", "Node", "none", Struct(<<Fld("name", Plain("string")), Fld("children", Arr(Ref("Node")))>>), NoType)>>,
    <<Member("type", "Node", "none", Struct(<<Fld("name", Plain("string")), Fld("children", Opt(Arr(Ref("Node")))), Fld("links", Opt(Dict(Ref("Node"))))>>), NoType)>>,
    <<Member("type", "Node", "one", Struct(<<Fld("kids", Dict(Ref("Node")))>>), NoType)>>,
    <<Member("type", "Node", "none", Struct(<<Fld("children", Arr(Opt(Ref("Node")))), Fld("grid", Arr(Arr(Ref("Node"))))>>), NoType)>>,
    <<Member("type", "Node", "none", Struct(<<Fld("sub", Struct(<<Fld("more", Arr(Ref("Node")))>>))>>), NoType)>>,
    <<Member("type", "Node", "none", Struct(<<Fld("b", Arr(Ref("Other")))>>), NoType),
      Member("type", "Other", "none", Struct(<<Fld("a", Opt(Arr(Ref("Node")))), Fld("x", Plain("int"))>>), NoType)>>,
    <<Member("type", "Node", "none", Struct(<<Fld("b", Ref("Other"))>>), NoType),
      Member("type", "Other", "none", Struct(<<Fld("a", Dict(Ref("Node")))>>), NoType)>>,
    \* not finitely sized
    <<Member("type", "Node", "none", Struct(<<Fld("next", Opt(Ref("Node")))>>), NoType)>>,
    <<Member("type", "Node", "none", Struct(<<Fld("b", Ref("Other"))>>), NoType),
      Member("type", "Other", "none", Struct(<<Fld("a", Opt(Ref("Node")))>>), NoType)>> }
RecursiveCases == {Iface("one", tds \o <<NodeUse>>) : tds \in RecTypes}

Templates(i) ==
  LET nm(p) == <<p, i>> IN   \* the harness joins prefix and index into a name
  { Member("method", "M", d, Struct(<<>>), Struct(<<>>)) : d \in {"none", "one"} }
    \cup { Member("method", "M", "multi", Struct(<<Fld("a", Plain("int")), Fld("b", Arr(Plain("string"))), Fld("c", Opt(Plain("object")))>>),
                  Struct(<<Fld("r", Dict(Plain("bool")))>>)) }
    \cup { Member("type", "T", d, Struct(<<Fld("x", Plain("float")), Fld("y", Struct(<<Fld("z", Plain("int"))>>))>>), NoType) : d \in {"none", "crlf"} }
    \cup { Member("type", "T", "tabcont", Enum(<<"alpha", "beta", "gamma">>), NoType), Member("type", "T", "none", Struct(<<>>), NoType) }
    \cup { Member("error", "E", d, Struct(<<>>), NoType) : d \in {"none", "u2028", "ctlend"} }
    \cup { Member("error", "E", "one", Struct(<<Fld("reason", Plain("string")), Fld("code", Plain("int"))>>), NoType) }

\* member i of a sequence gets the index i appended to its name by the harness (names are therefore distinct)
ShapesCases ==
  UNION { {Iface(d, ms) : d \in {"none", "multi"}, ms \in [1..n -> Templates(0)]} : n \in 1..MaxMembers }

DupKinds == {"method", "type", "error"}
DupMember(k, n) == Member(k, n, "none", IF k = "type" THEN Struct(<<Fld("x", Plain("int"))>>) ELSE Struct(<<>>), Struct(<<>>))
DupCases ==
  UNION { {Iface("none", ms) : ms \in [1..n -> {DupMember(k, nm) : k \in DupKinds, nm \in {"A", "B"}}]} : n \in 2..3 }

(* Mode "names": every name of three pools (ordinary identifiers, IDL keywords, Rust keywords and identifiers the generated *)
(* code uses itself) in every name position: type, method, error, field (typedef / method in / method out / error), enum element *)
FieldPool == {"foo", "a_b", "x1", "Foo"}
               \cup {"type", "method", "error", "interface", "bool", "int", "float", "string", "object"}
               \cup {"fn", "struct", "match", "self", "Self", "super", "crate", "async", "dyn", "loop", "enum", "impl", "trait", "mod", "use",
                     "pub", "ref", "mut", "move", "static", "const", "unsafe", "where", "while", "for", "if", "else", "in", "let", "return",
                     "break", "continue", "true", "false", "as", "box", "try", "yield", "abstract", "await", "call", "writer", "request"}
TypeNamePool == {"Foo", "Self", "Call", "Error", "ErrorKind", "Result", "Option", "String", "Vec", "Box", "VarlinkClient", "VarlinkInterface", "Type",
                 "X", "ID", "TypeV2", "HTTPHeader"}
MethodNamePool == {"Foo", "Call", "CallUpgraded", "Type", "GetInfo", "New", "Self", "Reply",
                   "X", "IO", "GetID", "HTTPGet", "GetHTTPStatus", "Get2", "A1B", "Ab1cD"}   \* capitalisation / digit patterns (snake-casing)
ErrorNamePool == {"Foo", "Error", "VarlinkError", "Io", "Self", "Result", "E", "BadIO", "IOFailure", "NotFound404", "V2Error"}

T1def == Member("type", "T1", "none", Struct(<<Fld("x", Plain("int"))>>), NoType)
M1def == Member("method", "M1", "none", Struct(<<>>), Struct(<<>>))
NamesCases ==
     {Iface("none", <<T1def, Member("type", "T2", "none", Struct(<<Fld(n, Plain("int")), Fld("other", Ref("T1"))>>), NoType), M1def>>) : n \in FieldPool}
  \cup {Iface("none", <<T1def, Member("type", "T2", "none", Enum(<<n, "other">>), NoType), M1def>>) : n \in FieldPool}
  \cup {Iface("none", <<T1def, Member("method", "M1", "none", Struct(<<Fld(n, Plain("string"))>>), Struct(<<Fld(n, Plain("bool"))>>))>>) : n \in FieldPool}
  \cup {Iface("none", <<T1def, M1def, Member("error", "E1", "none", Struct(<<Fld(n, Plain("int"))>>), NoType)>>) : n \in FieldPool}
  \cup {Iface("none", <<Member("type", n, "none", Struct(<<Fld("x", Plain("int"))>>), NoType),
                        Member("method", "M1", "none", Struct(<<Fld("a", Ref(n))>>), Struct(<<Fld("b", Arr(Ref(n)))>>))>>) : n \in TypeNamePool}
  \cup {Iface("none", <<T1def, Member("method", n, "none", Struct(<<Fld("a", Plain("int"))>>), Struct(<<Fld("b", Plain("int"))>>))>>) : n \in MethodNamePool}
  \cup {Iface("none", <<T1def, M1def, Member("error", n, "none", Struct(<<Fld("a", Plain("int"))>>), NoType)>>) : n \in ErrorNamePool}

(* Mode "rt": round-trip programs (C08): type t in method input, output, typedef field, and (when it has no anonymous part, *)
(* see finding F5) error parameter; a second method passes the typedef around                                                *)
RtPool == Pool(TypeDepth) \cup {Dict(Struct(<<>>)), Opt(Dict(Struct(<<>>))), Arr(Dict(Plain("int"))), Dict(Arr(Opt(Plain("string"))))}
RtCases ==
  {Iface("none", << Member("type", "T1", "none", Struct(<<Fld("x", Plain("int"))>>), NoType),
                    Member("type", "T2", "none", Struct(<<Fld("interface", t), Fld("y", Opt(Plain("string")))>>), NoType),
                    Member("method", "M1", "none", Struct(<<Fld("f", t), Fld("type", Plain("int"))>>), Struct(<<Fld("g", t), Fld("h", Plain("bool"))>>)),
                    Member("method", "M2", "none", Struct(<<Fld("a", Ref("T2"))>>), Struct(<<Fld("b", Arr(Ref("T2")))>>)),
                    Member("method", "Nop", "none", Struct(<<>>), Struct(<<>>)),
                    \* every input optional (the all-unset call still carries "parameters"), mixed-case and digit field names
                    Member("method", "GetIO", "none", Struct(<<Fld("ifIndex", Opt(Plain("int"))), Fld("with_Stats2", IF t.c = "opt" THEN t ELSE Opt(t))>>),
                                                       Struct(<<Fld("rxBytes", Opt(Plain("int"))), Fld("X", Plain("bool"))>>)),
                    Member("error", "E1", "none", Struct(<<Fld("e", IF HasAnon(t) THEN Plain("int") ELSE t), Fld("enum", Plain("string")), Fld("errNo", Opt(Plain("int")))>>), NoType),
                    Member("error", "E0", "none", Struct(<<>>), NoType),
                    \* declared errors whose names coincide with those of standard service errors (of another interface!)
                    \* (MethodNotImplemented too, but its reply helper is ambiguous with the runtime's own for every caller: F7)
                    Member("error", "InterfaceNotFound", "none", Struct(<<Fld("ifname", Plain("string")), Fld("code", Plain("int"))>>), NoType) >>)
     : t \in RtPool}

Universe == CASE Mode = "rt" -> RtCases [] Mode = "types" -> TypesCases [] Mode = "shapes" -> ShapesCases [] Mode = "dups" -> DupCases [] Mode = "names" -> NamesCases [] Mode = "stacked" -> StackedCases [] Mode = "recursive" -> RecursiveCases

Init == ast \in Universe
Next == UNCHANGED ast
Spec == Init /\ [][Next]_ast

\* in "shapes" mode names are made distinct by the harness, so only "dups" has collisions
Dups == IF Mode \in {"dups", "names"} THEN DupNames(ast.members) ELSE {}
TypesAllOk == \A i \in 1..Len(ast.members) : TypeOk(ast.members[i].a) /\ TypeOk(ast.members[i].b)

SetToSeq(S) == IF S = {} THEN <<>> ELSE IF Cardinality(S) = 1 THEN <<CHOOSE x \in S : TRUE>>
               ELSE LET a == CHOOSE x \in S : TRUE IN <<a>> \o <<CHOOSE y \in S \ {a} : TRUE>>

EmitCase == Emit => PrintT(<<"REPLAY", ToJson([ast |-> ast, mode |-> Mode, dups |-> SetToSeq(Dups), valid |-> Valid(ast.members),
                                                  finite |-> FinitelySized(ast.members)])>>)
=============================================================================
