------------------------------- MODULE Listen -------------------------------
(***************************************************************************)
(* The accept loop of varlink::listen (varlink/src/server.rs) on top of    *)
(* the worker pool (EXTENDS Pool), in logical time.                        *)
(*                                                                         *)
(* One Tick = one accept() that times out after `wait_time`:               *)
(*   with a stop flag   wait_time = 1 quantum (100 ms)                     *)
(*   without            wait_time = the whole idle timeout (IdleTicks)     *)
(* `toWait` is the countdown of server.rs (reset after every accepted      *)
(* connection and whenever the deadline passes while the pool is busy).    *)
(* Connections arrive and end whenever the environment wants.              *)
(*                                                                         *)
(* After the loop returns, the pool is dropped (Terminate behind all       *)
(* queued jobs, join) and then the Listener is dropped (unlink), in that   *)
(* order (reverse declaration order of the locals of listen()).            *)
(***************************************************************************)
EXTENDS Pool

CONSTANTS HasStop,      \* a stop flag is configured
          IdleTicks     \* idle timeout in quanta (0 = none)

VARIABLES lpc,        \* "accepting" | "executing" | "retOk" | "retTimeout" | "returned"
          toWait,     \* countdown
          stopFlag,   \* the AtomicBool
          backlog,    \* connections waiting in the listen queue
          arrived,    \* connections that have arrived so far
          sinceLast,  \* quanta since the last accepted connection (or since start)
          unlinked

lvars == <<lpc, toWait, stopFlag, backlog, arrived, sinceLast, unlinked>>
allvars == <<pvars, lvars>>

WaitTicks == IF HasStop THEN 1 ELSE IdleTicks

LInit ==
  /\ PInit
  /\ lpc = "accepting" /\ toWait = IdleTicks /\ stopFlag = FALSE
  /\ backlog = 0 /\ arrived = 0 /\ sinceLast = 0 /\ unlinked = FALSE

(* ---- environment ---- *)
Arrive ==
  /\ arrived < NJobs /\ lpc \notin {"returned"}
  /\ arrived' = arrived + 1 /\ backlog' = backlog + 1
  /\ UNCHANGED <<pvars, lpc, toWait, stopFlag, sinceLast, unlinked>>

SetStop ==
  /\ HasStop /\ ~stopFlag
  /\ stopFlag' = TRUE
  /\ UNCHANGED <<pvars, lpc, toWait, backlog, arrived, sinceLast, unlinked>>

LRelease(j) == EnvRelease(j) /\ UNCHANGED lvars
LCrash(j) == EnvCrash(j) /\ UNCHANGED lvars       \* the handler of connection j ends by panicking

(* ---- the loop ---- *)
AcceptConn ==
  /\ lpc = "accepting" /\ backlog > 0
  /\ backlog' = backlog - 1
  /\ lpc' = "executing" /\ sinceLast' = 0
  /\ UNCHANGED <<pvars, toWait, stopFlag, arrived, unlinked>>

LAccCount  == lpc = "executing" /\ AccCount /\ UNCHANGED lvars
LAccSend   == lpc = "executing" /\ AccSend /\ UNCHANGED lvars
LAccDecide == /\ lpc = "executing" /\ AccDecide
              /\ lpc' = "accepting" /\ toWait' = IdleTicks      \* top of the outer loop
              /\ UNCHANGED <<stopFlag, backlog, arrived, sinceLast, unlinked>>

\* accept() timed out
Tick ==
  /\ lpc = "accepting" /\ backlog = 0
  /\ (HasStop \/ IdleTicks > 0)            \* otherwise accept blocks without a timeout
  /\ sinceLast' = sinceLast + WaitTicks
  /\ IF HasStop /\ stopFlag
     THEN lpc' = "retOk" /\ UNCHANGED toWait
     ELSE IF HasStop /\ IdleTicks = 0
     THEN UNCHANGED <<lpc, toWait>>
     ELSE IF toWait <= WaitTicks
          THEN IF ctr = 0
               THEN lpc' = "retTimeout" /\ UNCHANGED toWait
               ELSE toWait' = IdleTicks /\ UNCHANGED lpc
          ELSE toWait' = toWait - WaitTicks /\ UNCHANGED lpc
  /\ UNCHANGED <<pvars, stopFlag, backlog, arrived, unlinked>>

(* ---- leaving listen(): drop(pool), then drop(listener) ---- *)
LDropSend == lpc \in {"retOk", "retTimeout"} /\ DropSendBody /\ UNCHANGED lvars
LDropJoined == lpc \in {"retOk", "retTimeout"} /\ DropJoined /\ UNCHANGED lvars
Unlink ==
  /\ lpc \in {"retOk", "retTimeout"} /\ apc = "dropped"
  /\ unlinked' = TRUE /\ lpc' = "returned"
  /\ UNCHANGED <<pvars, toWait, stopFlag, backlog, arrived, sinceLast>>

LWorker(w) == (WRecv(w) \/ WCount(w) \/ WStart(w) \/ WFinish(w) \/ WUncount(w)) /\ UNCHANGED lvars

LNext ==
  \/ Arrive \/ SetStop \/ (\E j \in Jobs : LRelease(j) \/ LCrash(j))
  \/ AcceptConn \/ LAccCount \/ LAccSend \/ LAccDecide \/ Tick
  \/ LDropSend \/ LDropJoined \/ Unlink
  \/ \E w \in Wids : LWorker(w)

LSpec == LInit /\ [][LNext]_allvars

\* fairness for the "promptly" clauses: the server's own steps are taken, time passes; the environment is free
ServerSteps == AcceptConn \/ LAccCount \/ LAccSend \/ LAccDecide \/ Tick \/ LDropSend \/ LDropJoined \/ Unlink
               \/ \E w \in Wids : LWorker(w)
LFairSpec == LSpec /\ WF_allvars(ServerSteps)

---------------------------------------------------------------------------
(* Properties (C15) *)

Accepted == 1..(nextJob - 1)
Returned == lpc \in {"retOk", "retTimeout", "returned"}

\* a timeout is reported only after the idle period without a new connection
TimeoutOnlyWhenIdleLongEnough == (lpc = "retTimeout") => sinceLast >= IdleTicks /\ IdleTicks > 0

\* ... and never while a connection is still being served (queued, taken or running)
NeverTimeoutWhileServing == (lpc = "retTimeout") => doneJobs = Accepted

\* with a stop flag and no idle timeout the loop never reports a timeout
NoTimeoutWithStopAndZeroIdle == (HasStop /\ IdleTicks = 0) => lpc # "retTimeout"

\* the stop flag is honoured at the next quantum
StopHonoured == [][(Tick /\ HasStop /\ stopFlag) => lpc' = "retOk"]_allvars

\* stop is the only way to return Ok
OkOnlyByStop == (lpc = "retOk") => stopFlag

\* listen() hands control back only after every accepted connection has been served to completion,
\* and a socket file is removed only then
ReturnAfterDrain == (lpc = "returned") => (doneJobs = Accepted /\ unlinked)
UnlinkAfterDrain == unlinked => (apc = "dropped" /\ doneJobs = Accepted)

\* nothing is accepted after the loop has decided to return
NoAcceptAfterReturn == [][Returned => nextJob' = nextJob]_allvars

\* promptly: once the loop has decided to return and the accepted connections are allowed to end, listen() returns
AllReleased == Accepted \subseteq mayFinish
ReturnsPromptly == (Returned /\ [](AllReleased)) ~> (lpc = "returned")
ReturnsPromptly2 == [](Returned => ([]AllReleased => <>(lpc = "returned")))

\* with a stop flag set and time passing, the loop stops accepting
StopStops == (HasStop /\ stopFlag /\ backlog = 0 /\ lpc = "accepting") ~> (Returned \/ lpc = "executing")
=============================================================================
