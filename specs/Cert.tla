-------------------------------- MODULE Cert --------------------------------
(***************************************************************************)
(* The certification service (varlink-certification/src/main.rs, server    *)
(* side): per-client position in the sequence Start, Test01 .. Test11, End *)
(* and the order of its checks:                                            *)
(*   1. parameters that do not decode at the IDL's types never reach the   *)
(*      method: InvalidParameter, connection closed, state unchanged       *)
(*      (generated dispatch);                                               *)
(*   2. unknown client id, or a step other than the one this client is     *)
(*      expected to take: ClientIdError, state unchanged;                  *)
(*   3. the client's position ADVANCES, and only then                      *)
(*   4. call mode and parameter values are compared with the canonical     *)
(*      ones: CertificationError or the step's success reply.              *)
(* A oneway call never gets any reply (success or error).                  *)
(***************************************************************************)
EXTENDS Naturals, Sequences, FiniteSets, TLC

CONSTANTS Clients,               \* client ids (model values / small ints)
          BugCheckBeforeAdvance, \* wrong design: a deviating value does not consume the step
          BugIgnoreMode,         \* wrong design: the call mode is not checked
          BugAcceptAnyValue      \* wrong design: values are not compared

Steps == <<"Test01", "Test02", "Test03", "Test04", "Test05", "Test06", "Test07", "Test08", "Test09", "Test10", "Test11", "End">>
StepSet == {Steps[i] : i \in 1..Len(Steps)} \cup {"Start"}

NextOf(s) == IF s = "End" THEN "End"
             ELSE LET i == CHOOSE k \in 1..Len(Steps) : Steps[k] = s IN Steps[i + 1]

\* the mode a step must be called with
ModeOf(s) == CASE s = "Test10" -> "more" [] s = "Test11" -> "oneway" [] OTHER -> "call"
Modes == {"call", "more", "oneway", "upgrade", "more+upgrade", "oneway+upgrade"}
IsOneway(m) == m \in {"oneway", "oneway+upgrade"}

Devs == {"canon", "wrongval", "undecodable"}

VARIABLES ctx,      \* ctx[c]: "none" (no id yet) or the step the service expects next from c
          trace     \* observation: calls and their outcome classes

cevars == <<ctx, trace>>

CeInit == ctx = [c \in Clients |-> "none"] /\ trace = <<>>

\* outcome classes: "success" | "clientid" | "cert" | "invalid" (InvalidParameter + close) | "none" (oneway: nothing)
Outcome(c, step, known, dev, mode) ==
  IF dev = "undecodable" THEN (IF IsOneway(mode) THEN "none-closed" ELSE "invalid")
  ELSE IF step = "Start" THEN
         IF mode = "call" /\ dev = "canon" THEN "success"
         ELSE IF IsOneway(mode) THEN "none" ELSE "cert"
  ELSE IF ~known \/ ctx[c] # step THEN (IF IsOneway(mode) THEN "none" ELSE "clientid")
  ELSE IF (mode = ModeOf(step) \/ BugIgnoreMode) /\ (dev = "canon" \/ BugAcceptAnyValue)
       THEN (IF IsOneway(mode) THEN "none" ELSE "success")
       ELSE (IF IsOneway(mode) THEN "none" ELSE "cert")

Advances(c, step, known, dev, mode) ==
  /\ dev # "undecodable" /\ step # "Start" /\ known /\ ctx[c] = step
  /\ (BugCheckBeforeAdvance => ((mode = ModeOf(step)) /\ dev = "canon"))

\* client c (or somebody using an unknown id when known = FALSE) calls `step`
Call(c, step, known, dev, mode) ==
  /\ LET o == Outcome(c, step, known, dev, mode) IN
     /\ trace' = Append(trace, [c |-> c, step |-> step, known |-> known, dev |-> dev, mode |-> mode, out |-> o])
     /\ ctx' = IF step = "Start" /\ o = "success" THEN [ctx EXCEPT ![c] = "Test01"]     \* a fresh id, expected at Test01
               ELSE IF Advances(c, step, known, dev, mode) THEN [ctx EXCEPT ![c] = NextOf(step)]
               ELSE ctx

CeNext == \E c \in Clients, step \in StepSet, known \in BOOLEAN, dev \in Devs, mode \in Modes : Call(c, step, known, dev, mode)
CeSpec == CeInit /\ [][CeNext]_cevars

---------------------------------------------------------------------------
Canonical(e) == e.dev = "canon" /\ e.mode = (IF e.step = "Start" THEN "call" ELSE ModeOf(e.step)) /\ e.known

\* a deviating request never gets the step's success reply
DeviationNeverSucceeds ==
  \A i \in 1..Len(trace) : (~Canonical(trace[i])) => trace[i].out # "success"

\* position of client c before event i, replayed from the trace (for CanonicalSucceeds)
\* the canonical call of the step the service expects from this client succeeds, whatever other clients do
CanonicalSucceeds ==
  \A i \in 1..Len(trace) :
     LET e == trace[i] IN
     (Canonical(e) /\ e.step # "Start" /\ e.out \notin {"success", "none"}) =>
        \* then it was out of order for this client: some earlier event of the same client already consumed the step
        \E j \in 1..(i - 1) : trace[j].c = e.c /\ trace[j].known
=============================================================================
