----------------------------- MODULE MultiConn -----------------------------
(***************************************************************************)
(* Several connections served concurrently by the worker pool (C13).       *)
(* A connection is a job of Pool.tla; while its worker is "running" the    *)
(* connection's requests are served one at a time with the reference       *)
(* semantics of ConnRef.tla; it ends when its client has closed (or the    *)
(* connection was closed by the service).  Peers may be idle (no request,  *)
(* never closing) - they occupy a worker forever.                          *)
(*                                                                         *)
(*  PerConnRefines   each connection's replies are a prefix of Expected of *)
(*                   ITS OWN requests, whatever the others do              *)
(*  IdleDoesNotBlock with no more connections than workers allowed, every  *)
(*                   connection gets all its replies even if no other      *)
(*                   connection ever closes (liveness, fair workers)       *)
(***************************************************************************)
EXTENDS Pool

CONSTANTS BugOnewayReplies, BugNoContinuesGate, BugFirstDot,
          BugSharedCursor      \* wrong design: connections share one progress cursor

Ref == INSTANCE ConnRef

IsPrefix(s, t) == Len(s) <= Len(t) /\ SubSeq(t, 1, Len(s)) = s

VARIABLES creqs,    \* creqs[j]: request sequence of connection j (chosen in Init)
          pos,      \* pos[j]: requests of j served so far
          cout,     \* cout[j]: replies written to connection j
          cstate    \* cstate[j]: "open" | "closed" | "upgraded"

mvars == <<creqs, pos, cout, cstate>>
mallvars == <<pvars, mvars>>

None(k)   == Ref!Req(k, FALSE, FALSE, FALSE, <<>>)
More(k)   == Ref!Req(k, TRUE, FALSE, FALSE, <<>>)
Oneway(k) == Ref!Req(k, FALSE, TRUE, FALSE, <<>>)

Alpha == { None("GenOk"), None("UnknownIface"), More("GenStream2"), Oneway("GenOk"), None("BadJson"), None("GenUp") }

MInit(maxLen) ==
  /\ PInit
  /\ creqs \in [Jobs -> UNION {[1..n -> Alpha] : n \in 0..maxLen}]
  /\ pos = [j \in Jobs |-> 0]
  /\ cout = [j \in Jobs |-> <<>>]
  /\ cstate = [j \in Jobs |-> "open"]

\* the worker running connection j serves its next request
ServeNext(w) ==
  /\ wst[w] = "running"
  /\ LET j == wjob[w]
         c == IF BugSharedCursor THEN 1 ELSE j
     IN /\ cstate[j] = "open" /\ pos[c] < Len(creqs[j])
        /\ LET i == pos[c] + 1
               s == Ref!Serve(creqs[j][i])
           IN /\ cout' = [cout EXCEPT ![j] = @ \o Ref!Tag(s.items, i)]
              /\ pos' = [pos EXCEPT ![c] = i]
              /\ cstate' = [cstate EXCEPT ![j] = CASE s.after = "close" -> "closed"
                                                   [] s.after = "upgrade" -> "upgraded"
                                                   [] OTHER -> "open"]
  /\ UNCHANGED <<pvars, creqs>>

\* a connection the service closed ends on its own; otherwise it ends when the client closes (EnvRelease)
ServiceClosed(w) ==
  /\ wst[w] = "running" /\ cstate[wjob[w]] = "closed" /\ wjob[w] \notin mayFinish
  /\ crash' = crash /\ mayFinish' = mayFinish \cup {wjob[w]}
  /\ UNCHANGED <<workers, ctr, queue, wst, wjob, apc, nextJob, served, doneJobs, mvars>>

MNext ==
  \/ (PNextNoDrop /\ UNCHANGED mvars)
  \/ \E w \in Wids : ServeNext(w) \/ ServiceClosed(w)

MSpec(maxLen) == MInit(maxLen) /\ [][MNext]_mallvars

MWorkerSteps == (WorkerSteps /\ UNCHANGED mvars) \/ \E w \in Wids : ServeNext(w)
MAcc == (AccSend \/ AccDecide \/ AccCount) /\ UNCHANGED mvars

---------------------------------------------------------------------------
PerConnRefines ==
  \A j \in Jobs : IsPrefix(cout[j], Ref!ExpectedOf(creqs[j]).out)

\* no reply of another connection's request: every item of cout[j] answers a request index of j's own sequence
OwnRepliesOnly ==
  \A j \in Jobs : \A k \in 1..Len(cout[j]) : cout[j][k].req \in 1..Len(creqs[j])

Complete(j) == cout[j] = Ref!ExpectedOf(creqs[j]).out

\* nobody ever closes: still everybody is answered, provided the connections fit into the pool
IdleDoesNotBlock == (NJobs <= Max) => <>(\A j \in Jobs : Complete(j))
=============================================================================
