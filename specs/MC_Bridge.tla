------------------------------ MODULE MC_Bridge ------------------------------
EXTENDS Bridge, Json
CONSTANTS MaxLen, Emit

\* what a client may ask for: service A hosts one interface, service B another, service-info goes to the resolver
Alpha == {Req(k, s) : k \in {"ok", "stream", "oneway", "error", "descr"}, s \in {"A", "B"}} \cup {Req("closing", "A"), Req("getinfo", "R")}
Last  == Alpha \cup {Req("upgrade", "A"), Req("upgrade", "B")}

Seqs == UNION {{s \in [1..n -> Last] : \A k \in 1..(n - 1) : s[k] \in Alpha} : n \in 0..MaxLen}

MCInit ==
  /\ mode \in {"resolver", "direct"}
  /\ reqs \in Seqs
  /\ (mode = "direct" => \A k \in 1..Len(reqs) : reqs[k].svc = "A")
  /\ payload \in {0, 2}
  /\ (payload > 0 => (reqs # <<>> /\ reqs[Len(reqs)].k = "upgrade"))
  /\ pipelined \in BOOLEAN
  /\ greet \in BOOLEAN
  /\ (greet => (mode = "resolver" /\ reqs # <<>> /\ reqs[Len(reqs)] = Req("upgrade", "B")))
  /\ abandon \in BOOLEAN
  /\ (abandon => (payload = 0 /\ reqs # <<>>))
  /\ upEnd \in {"client", "service"}
  /\ (upEnd = "service" => (mode = "resolver" /\ payload > 0))
  /\ BInit

Term == pc = "done" /\ UNCHANGED bvars
MCNext == BNext \/ Term
MCSpec == MCInit /\ [][MCNext]_bvars

EmitCase == (Emit /\ Done) =>
  PrintT(<<"REPLAY", ToJson([mode |-> mode, reqs |-> reqs, payload |-> payload, pipelined |-> pipelined, abandon |-> abandon, greet |-> greet, hello |-> hello, upEnd |-> upEnd, bye |-> bye, out |-> out,
                             got |-> [a |-> got["A"], b |-> got["B"], r |-> got["R"]], rawToSvc |-> rawToSvc, exit |-> exit])>>)
=============================================================================
