#!/usr/bin/env python3
"""Independent recogniser for varlink request messages (C06).

stdin: one hex string per line = the bytes of a stream tail.  stdout: one line per input:
classes of the NUL-terminated pieces, e.g. "M", "W M", "U"; a trailing unterminated piece is
reported as "P".  Classes:
  M  certainly malformed for the protocol: not UTF-8, not JSON, not an object, no string `method`,
     a flag member that is neither a boolean nor null, a known member given twice
  W  well-formed request (JSON object with string method, boolean/null flags)
  U  uncertain (constructs where JSON implementations legitimately differ: \\u escapes, exponents /
     very long numbers, nesting deeper than 100, top-level arrays) - never used for a strict verdict
Written against RFC 8259 with Python's json module; shares no code with the crate under test.
"""
import json
import re
import sys

KNOWN = ("method", "more", "oneway", "upgrade", "parameters")


class Dup(Exception):
    pass


def pairs(p):
    keys = [k for k, _ in p]
    return {"__pairs__": p} if len(set(keys)) != len(keys) else dict(p)


def const(c):
    raise ValueError("constant " + c)


NUMRE = re.compile(rb"[0-9][eE]|[0-9]{16,}")


def depth(b):
    d = m = 0
    for c in b:
        if c in b"[{":
            d += 1
            m = max(m, d)
        elif c in b"]}":
            d -= 1
    return m


def classify(piece):
    try:
        s = piece.decode("utf-8")
    except UnicodeDecodeError:
        return "M"
    if "\\u" in s or NUMRE.search(piece) or depth(piece) > 100:
        return "U"
    try:
        v = json.loads(s, object_pairs_hook=pairs, parse_constant=const)
    except (ValueError, RecursionError):
        return "M"
    if isinstance(v, list):
        return "U"
    if not isinstance(v, dict):
        return "M"
    if "__pairs__" in v:
        keys = [k for k, _ in v["__pairs__"]]
        for k in KNOWN:
            if keys.count(k) > 1:
                return "M"
        return "U"
    if not isinstance(v.get("method"), str):
        return "M"
    for f in ("more", "oneway", "upgrade"):
        if f in v and v[f] is not None and not isinstance(v[f], bool):
            return "M"
    return "W"


def main():
    out = sys.stdout
    for line in sys.stdin:
        b = bytes.fromhex(line.strip())
        parts = b.split(b"\0")
        last = parts.pop()
        cls = [classify(p) for p in parts]
        if last:
            cls.append("P")
        out.write(" ".join(cls) + "\n")
        out.flush()


if __name__ == "__main__":
    main()
