//! Runtime support of the generated round-trip drivers (C08): a recording implementation plan, an in-process
//! service on a socketpair that records every request and reply on the wire, and a raw caller.
use std::io::{BufReader, Read, Write};
use std::os::unix::net::UnixStream;
use std::sync::{Arc, Mutex, RwLock};

use serde_json::{json, Value};
use varlink::{Connection, ConnectionHandler, VarlinkService};

#[derive(Default, Clone)]
pub struct Plan {
    pub kind: String,  // "reply" | "error:<Name>" | "stream"
    pub value: Value,  // reply / error parameters in the IDL's JSON shape
    pub conts: usize,  // continues replies before the final one
}

#[derive(Default)]
pub struct Rec {
    pub seen: Mutex<Vec<(String, Value)>>,
    pub plan: Mutex<Plan>,
}

impl Rec {
    pub fn on_call(&self, method: &str, seen: Value) -> Plan {
        self.seen.lock().unwrap().push((method.to_string(), seen));
        self.plan.lock().unwrap().clone()
    }
}

#[derive(Default)]
pub struct Wire {
    pub requests: Vec<Value>,
    pub replies: Vec<Value>,
}

pub struct Link {
    pub conn: Arc<RwLock<Connection>>,
    pub wire: Arc<Mutex<Wire>>,
    pub raw: UnixStream,
    th: Option<std::thread::JoinHandle<()>>,
    client_end: Option<UnixStream>,
}

/// an in-process service behind a socketpair; everything that crosses it is recorded
pub fn link(service: VarlinkService) -> Link {
    let (a, mut b) = UnixStream::pair().unwrap();
    a.set_read_timeout(Some(std::time::Duration::from_secs(5))).unwrap();
    let wire: Arc<Mutex<Wire>> = Default::default();
    let w2 = wire.clone();
    let th = std::thread::spawn(move || {
        let mut buf: Vec<u8> = Vec::new();
        let mut tmp = [0u8; 65536];
        loop {
            let n = match b.read(&mut tmp) {
                Ok(0) | Err(_) => return,
                Ok(n) => n,
            };
            buf.extend_from_slice(&tmp[..n]);
            while let Some(p) = buf.iter().position(|x| *x == 0) {
                let msg: Vec<u8> = buf.drain(..=p).collect();
                w2.lock().unwrap().requests.push(serde_json::from_slice(&msg[..msg.len() - 1]).unwrap_or(json!({"NOT-JSON": String::from_utf8_lossy(&msg)})));
                let mut out: Vec<u8> = Vec::new();
                let r = service.handle(&mut msg.as_slice(), &mut out, None);
                for m in out.split(|x| *x == 0) {
                    if !m.is_empty() {
                        w2.lock().unwrap().replies.push(serde_json::from_slice(m).unwrap_or(json!({"NOT-JSON": String::from_utf8_lossy(m)})));
                    }
                }
                if b.write_all(&out).is_err() {
                    return;
                }
                if r.is_err() {
                    return; // the service closes the connection
                }
            }
        }
    });
    let mut conn = Connection::default();
    let rd: Box<dyn Read + Send + Sync> = Box::new(a.try_clone().unwrap());
    let wr: Box<dyn Write + Send + Sync> = Box::new(a.try_clone().unwrap());
    conn.reader = Some(BufReader::new(rd));
    conn.writer = Some(wr);
    Link { conn: Arc::new(RwLock::new(conn)), wire, raw: a.try_clone().unwrap(), th: Some(th), client_end: Some(a) }
}

impl Link {
    /// send a raw request, return the raw replies up to the final one (or none if the service closed)
    pub fn raw_call(&mut self, req: &Value) -> Vec<Value> {
        let mut b = serde_json::to_vec(req).unwrap();
        b.push(0);
        let _ = self.raw.write_all(&b);
        let mut buf: Vec<u8> = Vec::new();
        let mut out = Vec::new();
        let mut tmp = [0u8; 65536];
        loop {
            while let Some(p) = buf.iter().position(|x| *x == 0) {
                let msg: Vec<u8> = buf.drain(..=p).collect();
                let v: Value = serde_json::from_slice(&msg[..msg.len() - 1]).unwrap_or(Value::Null);
                let cont = v["continues"] == json!(true);
                out.push(v);
                if !cont {
                    return out;
                }
            }
            match self.raw.read(&mut tmp) {
                Ok(0) | Err(_) => return out,
                Ok(n) => buf.extend_from_slice(&tmp[..n]),
            }
        }
    }
    pub fn finish(mut self) -> Wire {
        drop(self.client_end.take());
        let _ = self.raw.shutdown(std::net::Shutdown::Both);
        if let Some(t) = self.th.take() {
            let _ = t.join();
        }
        let w = std::mem::take(&mut *self.wire.lock().unwrap());
        w
    }
}

pub fn varlink_kind(e: Option<&varlink::ErrorKind>) -> Value {
    match e {
        Some(varlink::ErrorKind::InvalidParameter(p)) => json!({"std": "InvalidParameter", "arg": p}),
        Some(varlink::ErrorKind::MethodNotFound(p)) => json!({"std": "MethodNotFound", "arg": p}),
        Some(varlink::ErrorKind::MethodNotImplemented(p)) => json!({"std": "MethodNotImplemented", "arg": p}),
        Some(varlink::ErrorKind::InterfaceNotFound(p)) => json!({"std": "InterfaceNotFound", "arg": p}),
        Some(k) => json!({"other": format!("{:?}", k)}),
        None => json!({"other": "no varlink error kind"}),
    }
}
