fn main() {
    varlink_generator::cargo_build("src/org.example.gen.varlink");
}
