//! vh — conformance harness: replays TLC-generated behaviours into the real varlink code and
//! records traces of the real code for validation against the TLA+ specifications.
mod cli;
mod addr;
mod bridge;
mod cert;
mod client;
mod conn;
mod connmc;
mod connref;
mod gen;
mod idl;
mod conntrace;
mod cuts;
mod listen;
mod malformed;
mod pool;
mod poolobs;
mod route;
mod svc;
mod util;
mod wire;

fn main() {
    let args: Vec<String> = std::env::args().collect();
    if args.len() < 2 {
        eprintln!("usage: vh <subcommand> [options]");
        std::process::exit(2);
    }
    let rest = &args[2..];
    match args[1].as_str() {
        "connref" => connref::run(rest),
        "conn" => connmc::run(rest),
        "cuts" => cuts::run(rest),
        "poolobs" => poolobs::run(rest),
        "client" => client::run(rest),
        "cli" => cli::run(rest),
        "cliforms" => cli::run_forms(rest),
        "bridge" => bridge::run(rest),
        "addr" => addr::run_addr(rest),
        "actprobe" => addr::run_actprobe(rest),
        "actserve" => addr::run_actserve(rest),
        "stdioserve" => addr::run_stdioserve(rest),
        "transport" => addr::run_transport(rest),
        "cert" => cert::run(rest),
        "certtrace" => cert::run_trace(rest),
        "wire" => wire::run(rest),
        "gen" => gen::run(rest),
        "cargobuild" => gen::run_cargobuild(rest),
        "idlnames" => idl::run_names(rest),
        "idltok" => idl::run_tokens(rest),
        "idlast" => idl::run_ast(rest),
        "idlfuzz" => idl::run_fuzz(rest),
        "idlcli" => idl::run_cli(rest),
        "clientreal" => client::run_real(rest),
        "clienttrace" => client::run_trace(rest),
        "listen" => listen::run(rest),
        "pool" => pool::run(rest),
        "pooltrace" => pool::run_trace(rest),
        "malformed" => malformed::run(rest),
        "route" => route::run(rest),
        "conntrace" => conntrace::run(rest),
        other => {
            eprintln!("vh: unknown subcommand {}", other);
            std::process::exit(2);
        }
    }
}
