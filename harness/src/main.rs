//! vh — conformance harness: replays TLC-generated behaviours into the real varlink code and
//! records traces of the real code for validation against the TLA+ specifications.
mod cli;
mod addr;
mod bridge;
mod cert;
mod client;
mod conn;
mod connmc;
mod connref;
mod gen;
mod idl;
mod conntrace;
mod cuts;
mod listen;
mod malformed;
mod pool;
mod poolobs;
mod route;
mod svc;
mod util;
mod wire;

fn main() {
    let args: Vec<String> = std::env::args().collect();
    if args.len() < 2 {
        eprintln!("usage: vh <subcommand> [options]");
        std::process::exit(2);
    }
    let rest = &args[2..];
    // helper roles (child services, build-script helper) behave like ordinary programs
    if matches!(args[1].as_str(), "actprobe" | "actserve" | "stdioserve" | "cargobuild") {
        dispatch(&args[1], rest);
        return;
    }
    // drivers: every assumption the driver makes about values coming back from the library (unwrap / expect / indexing) is
    // part of its oracle; when one fails, that is an observation about the tree under test, reported like any other
    static WHERE: std::sync::Mutex<String> = std::sync::Mutex::new(String::new());
    std::panic::set_hook(Box::new(|info| {
        let on_main = std::thread::current().name() == Some("main");
        if on_main {
            if let Some(l) = info.location() {
                *WHERE.lock().unwrap_or_else(|e| e.into_inner()) = format!("{}:{}", l.file(), l.line());
            }
        }
        if !on_main {
            if let Some(l) = info.location() {
                let f = l.file();
                if ["/varlink/src/", "/varlink_parser/src/", "/varlink_generator/src/", "/varlink_stdinterfaces/src/"].iter().any(|d| f.contains(d)) {
                    if util::LIB_PANICS.fetch_add(1, std::sync::atomic::Ordering::SeqCst) == 0 {
                        *util::LIB_PANIC_FIRST.lock().unwrap_or_else(|e| e.into_inner()) = format!("{}:{}: {}", f, l.line(), info);
                    }
                }
            }
        }
        eprintln!("{}", info);
    }));
    let sub = args[1].clone();
    let r = std::panic::catch_unwind(std::panic::AssertUnwindSafe(|| dispatch(&sub, rest)));
    if let Err(p) = r {
        let msg = p.downcast_ref::<&str>().map(|s| s.to_string()).or_else(|| p.downcast_ref::<String>().cloned()).unwrap_or_default();
        let at = WHERE.lock().unwrap_or_else(|e| e.into_inner()).clone();
        util::emit(&serde_json::json!({"fail": true, "case": 0, "variant": "driver-assumption", "sig": format!("driver assumption failed at {} ({})", at, sub),
            "detail": format!("the driver `vh {}` stopped at {}: {} -- a value that came back from the library was not what every run on the unchanged tree produces", sub, at, msg)}));
        util::emit(&serde_json::json!({"summary": true, "cases": 0, "executions": 0, "failures": 1, "aborted": "driver-assumption"}));
    }
}

fn dispatch(sub: &str, rest: &[String]) {
    match sub {
        "connref" => connref::run(rest),
        "conn" => connmc::run(rest),
        "cuts" => cuts::run(rest),
        "poolobs" => poolobs::run(rest),
        "client" => client::run(rest),
        "cli" => cli::run(rest),
        "cliforms" => cli::run_forms(rest),
        "bridge" => bridge::run(rest),
        "addr" => addr::run_addr(rest),
        "actprobe" => addr::run_actprobe(rest),
        "actserve" => addr::run_actserve(rest),
        "stdioserve" => addr::run_stdioserve(rest),
        "transport" => addr::run_transport(rest),
        "cert" => cert::run(rest),
        "certtrace" => cert::run_trace(rest),
        "wire" => wire::run(rest),
        "gen" => gen::run(rest),
        "cargobuild" => gen::run_cargobuild(rest),
        "idlnames" => idl::run_names(rest),
        "idltok" => idl::run_tokens(rest),
        "idlwords" => idl::run_words(rest),
        "idlast" => idl::run_ast(rest),
        "idlfuzz" => idl::run_fuzz(rest),
        "idlcli" => idl::run_cli(rest),
        "clientreal" => client::run_real(rest),
        "clienttrace" => client::run_trace(rest),
        "listen" => listen::run(rest),
        "pool" => pool::run(rest),
        "pooltrace" => pool::run_trace(rest),
        "malformed" => malformed::run(rest),
        "route" => route::run(rest),
        "conntrace" => conntrace::run(rest),
        other => {
            eprintln!("vh: unknown subcommand {}", other);
            std::process::exit(2);
        }
    }
}
