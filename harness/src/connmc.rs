//! `vh conn` — replay behaviours of the implementation-shaped Conn machine (specs/Conn.tla,
//! MC_Conn with Emit): the segmentation chosen by TLC becomes the chunking of the real byte
//! stream; every handle() return is compared with the model's (tail, upgraded, #replies).
use std::sync::atomic::{AtomicUsize, Ordering};
use std::sync::{Arc, Mutex};

use serde_json::{json, Value};

use crate::conn::*;
use crate::connref::{sig_of, Failure};
use crate::svc::{self, SharedLog};
use crate::util::*;

/// bytes of one atom; `split` = byte offset at which a two-atom body is divided
fn atom_bytes(a: &Value, creqs: &[CReq], partial: &[u8], split: &dyn Fn(usize) -> usize, two: bool) -> Vec<u8> {
    let t = a[0].as_str().unwrap();
    let i = a[1].as_u64().unwrap() as usize;
    let body: &[u8] = if i <= creqs.len() { &creqs[i - 1].bytes } else { partial };
    match t {
        "Z" => vec![0],
        "B" => {
            if two {
                body[..split(body.len()).min(body.len())].to_vec()
            } else {
                body.to_vec()
            }
        }
        "b" => body[split(body.len()).min(body.len())..].to_vec(),
        _ => panic!("atom {}", a),
    }
}

fn atoms_bytes(atoms: &Value, creqs: &[CReq], partial: &[u8], split: &dyn Fn(usize) -> usize, two: bool) -> Vec<u8> {
    let mut v = Vec::new();
    for a in atoms.as_array().unwrap() {
        v.extend(atom_bytes(a, creqs, partial, split, two));
    }
    v
}

pub fn run(args: &[String]) {
    let threads: usize = args.iter().find_map(|a| a.strip_prefix("--threads=").and_then(|s| s.parse().ok())).unwrap_or(8);
    let all_splits = args.iter().any(|a| a == "--all-splits");
    let pad: usize = args.iter().find_map(|a| a.strip_prefix("--pad=").and_then(|s| s.parse().ok())).unwrap_or(0);
    let cases = Arc::new(read_cases());
    let failures: Arc<Mutex<Vec<Failure>>> = Default::default();
    let execs = Arc::new(AtomicUsize::new(0));
    let need_sock = cases.iter().any(|c| c["mode"] == "listen");
    let dir = tmpdir("conn");
    let sock_addr = format!("unix:{}/s", dir.display());
    let mut server = if need_sock { Some(Server::start(&sock_addr, threads + 2, threads + 8)) } else { None };
    let next = Arc::new(AtomicUsize::new(0));
    let mut hs = Vec::new();
    for _ in 0..threads {
        let cases = cases.clone();
        let failures = failures.clone();
        let next = next.clone();
        let execs = execs.clone();
        let sock_addr = sock_addr.clone();
        let slog = server.as_ref().map(|s| s.log.clone());
        hs.push(std::thread::spawn(move || {
            let mlog: SharedLog = Default::default();
            let service = svc::standard_service(mlog.clone());
            loop {
                let idx = next.fetch_add(1, Ordering::SeqCst);
                if idx >= cases.len() || failures.lock().unwrap().len() > 40 {
                    break; // enough evidence; every further hang would only cost its timeout
                }
                let case = &cases[idx];
                let reqs = case["reqs"].as_array().unwrap();
                let end = case["end"].as_str().unwrap();
                let at = case["at"].as_u64().unwrap() as usize;
                let mode = case["mode"].as_str().unwrap();
                let trunc = case["trunc"].as_bool().unwrap();
                let plan = case["plan"].as_array().unwrap();
                let two = plan.iter().any(|c| c.as_array().unwrap().iter().any(|a| a[0] == "b"));
                // byte offsets at which two-atom bodies are divided
                let maxlen = 64usize;
                let splits: Vec<usize> = if !two { vec![0] } else if all_splits { (0..=maxlen).collect() } else { vec![1, 7, 1000] };
                for (si, sp) in splits.iter().enumerate() {
                    let sp = *sp;
                    let salt = format!("m{}s{}{}", idx, si, &mode[..1]);
                    let mut creqs: Vec<CReq> = reqs.iter().enumerate().map(|(i, r)| concretise(r, i + 1, &salt, pad)).collect();
                    let partial: Vec<u8> = br#"{"method":"org.example.gen.Ping","parameters":{"ping":"trunca"#.to_vec();
                    // split(len): offset inside the body; 1000 means "last byte", clamp to 1..len-1 when possible
                    let split = move |len: usize| -> usize {
                        if len <= 1 { return len; }
                        if sp == 1000 { len - 1 } else if all_splits { sp.min(len) } else { sp.clamp(1, len - 1) }
                    };
                    if all_splits && creqs.iter().all(|c| sp > c.bytes.len()) && sp > partial.len() {
                        continue;
                    }
                    let chunks: Vec<Vec<u8>> = plan.iter().map(|c| atoms_bytes(c, &creqs, &partial, &split, two)).collect();
                    let up_tok = if end == "upgraded" { Some(creqs[at - 1].tok.clone()) } else { None };
                    let want_up = atoms_bytes(&case["upRx"], &creqs, &partial, &split, two);
                    execs.fetch_add(1, Ordering::Relaxed);
                    let mut out_items = case["out"].clone();
                    let mut results = case["results"].clone();
                    let res: Result<(), String> = (|| {
                        if mode == "mem" {
                            let obs = run_mem(&service, &mlog, &chunks, up_tok.as_deref());
                            let exp = Expect { creqs: &creqs, out: &out_items, end, at, results: &results };
                            if obs.end == "panic" {
                                return Err("the service panicked".into());
                            }
                            check_replies(&exp, &obs.out, false)?;
                            // per-invocation returns against the model's history
                            let rets: Vec<&Value> = case["hist"].as_array().unwrap().iter().filter(|h| h["ev"] != "enter").collect();
                            // the harness skips empty chunks (the model feeds them); compare only when counts agree
                            let nonempty = chunks.iter().all(|c| !c.is_empty());
                            if nonempty {
                                // model may have one extra flush invocation, which run_mem performs without recording
                                let n = obs.rets.len().min(rets.len());
                                for k in 0..n {
                                    let m = rets[k];
                                    let o = &obs.rets[k];
                                    if m["ev"] == "err" {
                                        if o != &json!("err") {
                                            return Err(format!("invocation {}: model says handle() fails, observed {}", k + 1, o));
                                        }
                                        continue;
                                    }
                                    if o == &json!("err") || o == &json!("panic") {
                                        return Err(format!("invocation {}: observed {} ({}), model says Ok", k + 1, o, obs.note));
                                    }
                                    let want_tail = atoms_bytes(&m["tail"], &creqs, &partial, &split, two);
                                    let got_tail: Vec<u8> = o["tail"].as_array().unwrap().iter().map(|b| b.as_u64().unwrap() as u8).collect();
                                    if got_tail != want_tail {
                                        return Err(format!("invocation {}: returned tail {:?}, model says {:?} (bytes after the last complete message)", k + 1, lossy(&got_tail), lossy(&want_tail)));
                                    }
                                    if o["upg"] != m["upg"] {
                                        return Err(format!("invocation {}: upgraded flag {}, model says {}", k + 1, o["upg"], m["upg"]));
                                    }
                                    if o["nout"] != m["nout"] {
                                        return Err(format!("invocation {}: {} replies written so far, model says {}", k + 1, o["nout"], m["nout"]));
                                    }
                                }
                                if obs.rets.len() < rets.len().saturating_sub(1) || obs.rets.len() > rets.len() {
                                    return Err(format!("{} handle() invocations observed, model has {}", obs.rets.len(), rets.len()));
                                }
                            }
                            if obs.end != end {
                                return Err(format!("connection state: expected {}, observed {} {}", end, obs.end, obs.note));
                            }
                            if obs.up_rx != want_up {
                                return Err(format!("upgraded handler received {:?}, model says {:?}", lossy(&obs.up_rx), lossy(&want_up)));
                            }
                            check_script_results(&exp, &mlog)?;
                            let want_tail = atoms_bytes(&case["tail"], &creqs, &partial, &split, two);
                            if end == "open" && obs.tail != want_tail {
                                return Err(format!("final tail {:?}, model says {:?}", lossy(&obs.tail), lossy(&want_tail)));
                            }
                            Ok(())
                        } else {
                            let log = slog.as_ref().unwrap();
                            let stok = format!("SENTINEL{}", salt);
                            let sentinel_bytes = {
                                let mut b = serde_json::to_vec(&json!({"method": "org.example.gen.Ping", "parameters": {"ping": stok}})).unwrap();
                                b.push(0);
                                b
                            };
                            let use_sentinel = end != "upgraded" && !trunc;
                            let obs = run_socket(&sock_addr, log, &chunks, if use_sentinel { Some(&sentinel_bytes) } else { None }, &stok, up_tok.as_deref());
                            if use_sentinel && end == "open" {
                                creqs.push(CReq { kind: "GenOk".into(), tok: stok.clone(), bytes: sentinel_bytes[..sentinel_bytes.len() - 1].to_vec(), method: "org.example.gen.Ping".into(), more: false, oneway: false, script: vec![], raw_full: None });
                                out_items.as_array_mut().unwrap().push(json!({"req": creqs.len(), "cont": false, "err": "", "arg": "pong"}));
                                results.as_array_mut().unwrap().push(json!([]));
                            }
                            let exp = Expect { creqs: &creqs, out: &out_items, end, at, results: &results };
                            if obs.end == "hang" {
                                let r = check_replies(&exp, &obs.out, false);
                                return Err(format!("connection stays open but a request is never answered; {}", r.err().unwrap_or_default()));
                            }
                            check_replies(&exp, &obs.out, false)?;
                            if use_sentinel && obs.end != end {
                                return Err(format!("connection state: expected {}, observed {}", end, obs.end));
                            }
                            if obs.up_rx != want_up {
                                return Err(format!("upgraded handler received {:?}, model says {:?}", lossy(&obs.up_rx), lossy(&want_up)));
                            }
                            check_script_results(&exp, log)?;
                            let mut l = log.lock().unwrap();
                            for c in creqs.iter() {
                                l.script.remove(&c.tok);
                                l.up_rx.remove(&c.tok);
                                l.up_calls.remove(&c.tok);
                            }
                            Ok(())
                        }
                    })();
                    if mode == "mem" {
                        let mut l = mlog.lock().unwrap();
                        l.script.clear();
                        l.up_rx.clear();
                        l.up_calls.clear();
                    }
                    if let Err(d) = res {
                        failures.lock().unwrap().push(Failure { case: idx, variant: format!("{}-split{}", mode, sp), detail: d });
                        break;
                    }
                }
            }
        }));
    }
    for h in hs {
        let _ = h.join();
    }
    if let Some(s) = server.as_mut() {
        s.stop();
    }
    let _ = std::fs::remove_dir_all(&dir);
    let fs = failures.lock().unwrap();
    for f in fs.iter() {
        let c = &cases[f.case];
        let plan: Vec<usize> = c["plan"].as_array().unwrap().iter().map(|x| x.as_array().unwrap().len()).collect();
        emit(&json!({"fail": true, "case": f.case, "variant": f.variant, "detail": f.detail,
                     "sig": format!("{}{};plan={:?}", sig_of(&c["reqs"]), if c["trunc"] == true { "+trunc" } else { "" }, plan), "input": c}));
    }
    emit(&json!({"summary": true, "cases": cases.len(), "executions": execs.load(Ordering::Relaxed), "failures": fs.len()}));
}
