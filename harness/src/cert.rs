//! `vh cert` — C19: the real `varlink-certification` service (binary built from the tree) driven over raw sockets.
//!  * behaviours of specs/Cert.tla (MC_Cert traces) replayed call by call, outcome class compared;
//!  * concretisation of "deviating value": every single-field mutation of a step's canonical parameters, judged by an
//!    independent typed comparison (same value at the IDL's types / different value / does not decode);
//!  * `vh certtrace`: concurrent canonical and deviating clients, trace validated by Trace_Cert.tla.
use std::io::{Read, Write};
use std::os::unix::net::UnixStream;
use std::process::{Child, Command, Stdio};
use std::sync::atomic::{AtomicUsize, Ordering};
use std::sync::{Arc, Mutex};
use std::time::Duration;

use serde_json::{json, Value};

use crate::util::*;

#[derive(Clone, Debug)]
enum Ty {
    Bool,
    Int,
    Float,
    Str,
    Object,
    Opt(Box<Ty>),
    Arr(Box<Ty>),
    Dict(Box<Ty>),
    Set,
    Struct(Vec<(&'static str, Ty)>),
    Enum(Vec<&'static str>),
}

#[derive(Debug, PartialEq, Clone, Copy)]
enum Cmp {
    Same,
    Different,
    Undecodable,
}

fn join(a: Cmp, b: Cmp) -> Cmp {
    match (a, b) {
        (Cmp::Undecodable, _) | (_, Cmp::Undecodable) => Cmp::Undecodable,
        (Cmp::Different, _) | (_, Cmp::Different) => Cmp::Different,
        _ => Cmp::Same,
    }
}

/// Compare `m` with the canonical `c` AS VALUES OF TYPE `t` (None = member absent).
fn cmp(t: &Ty, c: Option<&Value>, m: Option<&Value>) -> Cmp {
    let df = |same: bool| if same { Cmp::Same } else { Cmp::Different };
    match t {
        Ty::Opt(inner) => {
            let cn = c.map(|v| v.is_null()).unwrap_or(true);
            let mn = m.map(|v| v.is_null()).unwrap_or(true);
            match (cn, mn) {
                (true, true) => Cmp::Same,
                (true, false) => match cmp(inner, m, m) { Cmp::Undecodable => Cmp::Undecodable, _ => Cmp::Different },
                (false, true) => Cmp::Different,
                (false, false) => cmp(inner, c, m),
            }
        }
        _ => {
            let m = match m {
                None => return Cmp::Undecodable, // required member missing
                Some(v) => v,
            };
            let c = c.unwrap_or(&Value::Null);
            match t {
                Ty::Bool => if m.is_boolean() { df(m == c) } else { Cmp::Undecodable },
                Ty::Int => if m.is_i64() || m.is_u64() { if m.is_u64() && m.as_u64().unwrap() > i64::MAX as u64 { Cmp::Undecodable } else { df(m.as_i64() == c.as_i64()) } } else { Cmp::Undecodable },
                Ty::Float => if m.is_number() { df(m.as_f64() == c.as_f64()) } else { Cmp::Undecodable },
                Ty::Str => if m.is_string() { df(m == c) } else { Cmp::Undecodable },
                Ty::Object => df(m == c),
                Ty::Arr(inner) => match (m.as_array(), c.as_array()) {
                    (Some(ma), Some(ca)) => {
                        let mut r = df(ma.len() == ca.len());
                        for (i, x) in ma.iter().enumerate() {
                            r = join(r, cmp(inner, ca.get(i).or(Some(x)), Some(x)));
                        }
                        r
                    }
                    (Some(ma), None) => { let mut r = Cmp::Different; for x in ma { r = join(r, cmp(inner, Some(x), Some(x))); } r }
                    _ => Cmp::Undecodable,
                },
                Ty::Dict(inner) => match m.as_object() {
                    Some(mo) => {
                        let empty = serde_json::Map::new();
                        let co = c.as_object().unwrap_or(&empty);
                        let mut r = df(mo.len() == co.len() && mo.keys().all(|k| co.contains_key(k)));
                        for (k, x) in mo {
                            r = join(r, cmp(inner, co.get(k).or(Some(x)), Some(x)));
                        }
                        r
                    }
                    None => Cmp::Undecodable,
                },
                Ty::Set => match m.as_object() {
                    Some(mo) => {
                        if mo.values().any(|v| !v.is_object()) { return Cmp::Undecodable; }
                        let empty = serde_json::Map::new();
                        let co = c.as_object().unwrap_or(&empty);
                        df(mo.len() == co.len() && mo.keys().all(|k| co.contains_key(k)))
                    }
                    None => Cmp::Undecodable,
                },
                Ty::Struct(fields) => {
                    if let Some(ma) = m.as_array() {
                        // serde-derived structs also decode from a sequence of exactly their fields
                        if ma.len() != fields.len() { return Cmp::Undecodable; }
                        let mut r = Cmp::Same;
                        for (i, (name, ft)) in fields.iter().enumerate() {
                            let ce = c.get(*name);
                            // in sequence form an optional element must be present (null = None)
                            r = join(r, cmp(ft, ce, Some(&ma[i])));
                        }
                        return r;
                    }
                    match m.as_object() {
                        Some(mo) => {
                            let mut r = Cmp::Same;
                            for (name, ft) in fields {
                                r = join(r, cmp(ft, c.get(*name), mo.get(*name)));
                            }
                            r // members the type does not know are ignored
                        }
                        None => Cmp::Undecodable,
                    }
                }
                Ty::Enum(names) => match m.as_str() {
                    Some(s) if names.contains(&s) => df(m == c),
                    _ => Cmp::Undecodable,
                },
                Ty::Opt(_) => unreachable!(),
            }
        }
    }
}

fn s4() -> Ty {
    Ty::Struct(vec![("bool", Ty::Bool), ("int", Ty::Int), ("float", Ty::Float), ("string", Ty::Str)])
}

fn mytype_ty() -> Ty {
    let fs = Ty::Struct(vec![("first", Ty::Int), ("second", Ty::Str)]);
    Ty::Struct(vec![
        ("object", Ty::Object),
        ("enum", Ty::Enum(vec!["one", "two", "three"])),
        ("struct", fs.clone()),
        ("array", Ty::Arr(Box::new(Ty::Str))),
        ("dictionary", Ty::Dict(Box::new(Ty::Str))),
        ("stringset", Ty::Set),
        ("nullable", Ty::Opt(Box::new(Ty::Str))),
        ("nullable_array_struct", Ty::Opt(Box::new(Ty::Arr(Box::new(fs))))),
        ("interface", Ty::Struct(vec![
            ("foo", Ty::Opt(Box::new(Ty::Arr(Box::new(Ty::Opt(Box::new(Ty::Dict(Box::new(Ty::Enum(vec!["foo", "bar", "baz"])))))))))),
            ("anon", Ty::Struct(vec![("foo", Ty::Bool), ("bar", Ty::Bool)])),
        ])),
    ])
}

fn mytype_val() -> Value {
    json!({
        "object": {"method": "org.varlink.certification.Test09", "parameters": {"map": {"foo": "Foo", "bar": "Bar"}}},
        "enum": "two",
        "struct": {"first": 1, "second": "2"},
        "array": ["one", "two", "three"],
        "dictionary": {"foo": "Foo", "bar": "Bar"},
        "stringset": {"one": {}, "two": {}, "three": {}},
        "interface": {"foo": [null, {"foo": "foo", "bar": "bar"}, null, {"one": "foo", "two": "bar"}], "anon": {"foo": true, "bar": false}}
    })
}

pub const STEPS: [&str; 13] = ["Start", "Test01", "Test02", "Test03", "Test04", "Test05", "Test06", "Test07", "Test08", "Test09", "Test10", "Test11", "End"];

/// (type of the parameters without client_id, canonical parameters without client_id, canonical reply parameters)
fn step_def(step: &str) -> (Ty, Value, Value) {
    let pi = std::f64::consts::PI;
    let s4v = json!({"bool": false, "int": 2, "float": pi, "string": "a lot of string"});
    let replies: Vec<String> = (1..=10).map(|i| format!("Reply number {}", i)).collect();
    match step {
        "Start" => (Ty::Struct(vec![]), json!({}), json!({})),
        "Test01" => (Ty::Struct(vec![]), json!({}), json!({"bool": true})),
        "Test02" => (Ty::Struct(vec![("bool", Ty::Bool)]), json!({"bool": true}), json!({"int": 1})),
        "Test03" => (Ty::Struct(vec![("int", Ty::Int)]), json!({"int": 1}), json!({"float": 1.0})),
        "Test04" => (Ty::Struct(vec![("float", Ty::Float)]), json!({"float": 1.0}), json!({"string": "ping"})),
        "Test05" => (Ty::Struct(vec![("string", Ty::Str)]), json!({"string": "ping"}), s4v.clone()),
        "Test06" => (s4(), s4v.clone(), json!({"struct": s4v})),
        "Test07" => (Ty::Struct(vec![("struct", s4())]), json!({"struct": s4v}), json!({"map": {"bar": "Bar", "foo": "Foo"}})),
        "Test08" => (Ty::Struct(vec![("map", Ty::Dict(Box::new(Ty::Str)))]), json!({"map": {"bar": "Bar", "foo": "Foo"}}), json!({"set": {"one": {}, "two": {}, "three": {}}})),
        "Test09" => (Ty::Struct(vec![("set", Ty::Set)]), json!({"set": {"one": {}, "two": {}, "three": {}}}), json!({"mytype": mytype_val()})),
        "Test10" => (Ty::Struct(vec![("mytype", mytype_ty())]), json!({"mytype": mytype_val()}), json!({"string": "Reply number 10"})),
        "Test11" => (Ty::Struct(vec![("last_more_replies", Ty::Arr(Box::new(Ty::Str)))]), json!({"last_more_replies": replies}), json!({})),
        "End" => (Ty::Struct(vec![]), json!({}), json!({"all_ok": true})),
        s => panic!("step {}", s),
    }
}

fn mode_of(step: &str) -> &'static str {
    match step {
        "Test10" => "more",
        "Test11" => "oneway",
        _ => "call",
    }
}

/// every single-field mutation of `v`: each leaf (and each inner node) changed, removed, retyped
fn mutants_of(v: &Value) -> Vec<(String, Value)> {
    fn walk(root: &Value, cur: &Value, path: &mut Vec<String>, out: &mut Vec<(String, Value)>) {
        let set_at = |root: &Value, path: &[String], nv: Option<Value>| -> Value {
            let mut r = root.clone();
            if path.is_empty() {
                return nv.unwrap_or(Value::Null);
            }
            let mut curp = &mut r;
            for p in &path[..path.len() - 1] {
                curp = if curp.is_array() { &mut curp[p.parse::<usize>().unwrap()] } else { &mut curp[p.as_str()] };
            }
            let last = &path[path.len() - 1];
            match nv {
                Some(x) => { if curp.is_array() { curp[last.parse::<usize>().unwrap()] = x; } else { curp[last.as_str()] = x; } }
                None => { if let Some(a) = curp.as_array_mut() { a.remove(last.parse::<usize>().unwrap()); } else if let Some(o) = curp.as_object_mut() { o.remove(last); } }
            }
            r
        };
        if !path.is_empty() {
            let p = path.join("/");
            let mut alts: Vec<(&str, Value)> = vec![("null", Value::Null), ("true", json!(true)), ("false", json!(false)), ("int7", json!(7)), ("float", json!(7.5)),
                ("str", json!("mutated")), ("emptystr", json!("")), ("arr0", json!([])), ("obj0", json!({})), ("arr1", json!([cur.clone()])), ("obj1", json!({"k": cur.clone()}))];
            match cur {
                Value::Number(n) => {
                    if let Some(i) = n.as_i64() { alts.push(("plus1", json!(i + 1))); alts.push(("asfloat", json!(i as f64))); alts.push(("neg", json!(-i))); }
                    else if let Some(f) = n.as_f64() { alts.push(("plus", json!(f + 0.5))); alts.push(("trunc", json!(f.trunc() as i64))); }
                }
                Value::String(s) => { alts.push(("suffix", json!(format!("{}x", s)))); alts.push(("upper", json!(s.to_uppercase()))); }
                _ => {}
            }
            for (nm, a) in alts {
                if &a != cur {
                    out.push((format!("{}:={}", p, nm), set_at(root, path, Some(a))));
                }
            }
            out.push((format!("{}:removed", p), set_at(root, path, None)));
        }
        match cur {
            Value::Object(o) => {
                for (k, x) in o {
                    path.push(k.clone());
                    walk(root, x, path, out);
                    path.pop();
                }
                // an extra member
                let mut r = root.clone();
                {
                    let mut curp = &mut r;
                    for p in path.iter() {
                        curp = if curp.is_array() { &mut curp[p.parse::<usize>().unwrap()] } else { &mut curp[p.as_str()] };
                    }
                    if let Some(oo) = curp.as_object_mut() {
                        oo.insert("zz_extra".into(), json!(1));
                    }
                }
                out.push((format!("{}:+extra", path.join("/")), r));
            }
            Value::Array(a) => {
                for (i, x) in a.iter().enumerate() {
                    path.push(i.to_string());
                    walk(root, x, path, out);
                    path.pop();
                }
                // duplicate the last element / append
                let mut r = root.clone();
                {
                    let mut curp = &mut r;
                    for p in path.iter() {
                        curp = if curp.is_array() { &mut curp[p.parse::<usize>().unwrap()] } else { &mut curp[p.as_str()] };
                    }
                    if let Some(aa) = curp.as_array_mut() {
                        if let Some(l) = aa.last().cloned() { aa.push(l); }
                    }
                }
                out.push((format!("{}:+elem", path.join("/")), r));
            }
            _ => {}
        }
    }
    let mut out = Vec::new();
    walk(v, v, &mut Vec::new(), &mut out);
    out
}

pub struct Service {
    child: Child,
    pub path: std::path::PathBuf,
    dir: std::path::PathBuf,
}

impl Service {
    pub fn start(tag: &str) -> Service {
        let bin = std::env::var("VERIF_CERT_BIN").expect("VERIF_CERT_BIN");
        let dir = tmpdir(tag);
        let path = dir.join("cert");
        let child = Command::new(&bin).arg(format!("--varlink=unix:{}", path.display())).stdin(Stdio::null()).stdout(Stdio::null()).stderr(Stdio::null()).spawn().expect("spawn certification service");
        let t0 = std::time::Instant::now();
        while UnixStream::connect(&path).is_err() {
            if t0.elapsed() > Duration::from_secs(10) {
                eprintln!("vh cert: service did not come up");
                std::process::exit(2);
            }
            std::thread::sleep(Duration::from_millis(5));
        }
        Service { child, path, dir }
    }
}
impl Drop for Service {
    fn drop(&mut self) {
        let _ = self.child.kill();
        let _ = self.child.wait();
        let _ = std::fs::remove_dir_all(&self.dir);
    }
}

pub struct Conn {
    s: Option<UnixStream>,
    path: std::path::PathBuf,
    buf: Vec<u8>,
}

#[derive(Debug, Clone, PartialEq)]
pub struct Obs {
    pub class: String, // success | clientid | cert | invalid | none | none-closed | closed | other:<..>
    pub replies: Vec<Value>,
}

impl Conn {
    pub fn new(path: &std::path::Path) -> Conn {
        Conn { s: None, path: path.to_path_buf(), buf: Vec::new() }
    }
    fn ensure(&mut self) {
        if self.s.is_none() {
            let s = UnixStream::connect(&self.path).expect("connect");
            s.set_read_timeout(Some(Duration::from_secs(4))).unwrap();
            self.s = Some(s);
            self.buf.clear();
        }
    }
    fn read_msg(&mut self) -> Result<Value, &'static str> {
        loop {
            if let Some(p) = self.buf.iter().position(|b| *b == 0) {
                let m: Vec<u8> = self.buf.drain(..=p).collect();
                return serde_json::from_slice(&m[..m.len() - 1]).map_err(|_| "not-json");
            }
            let mut tmp = [0u8; 8192];
            match self.s.as_mut().unwrap().read(&mut tmp) {
                Ok(0) => return Err("eof"),
                Ok(n) => self.buf.extend_from_slice(&tmp[..n]),
                Err(e) => match e.kind() {
                    std::io::ErrorKind::WouldBlock | std::io::ErrorKind::TimedOut => return Err("timeout"),
                    // the service closed while our probe was still unread in its queue: the kernel reports a reset
                    _ => return Err("eof"),
                },
            }
        }
    }
    /// one call; for oneway the silence is established by a following GetInfo round trip
    pub fn call(&mut self, method: &str, params: Option<Value>, mode: &str) -> Obs {
        self.ensure();
        let mut req = json!({"method": method});
        if let Some(p) = params {
            req["parameters"] = p;
        }
        for f in mode.split('+') {
            match f {
                "more" => req["more"] = json!(true),
                "oneway" => req["oneway"] = json!(true),
                "upgrade" => req["upgrade"] = json!(true),
                _ => {}
            }
        }
        let oneway = mode.split('+').any(|f| f == "oneway");
        let mut b = serde_json::to_vec(&req).unwrap();
        b.push(0);
        if self.s.as_mut().unwrap().write_all(&b).is_err() {
            self.s = None;
            return Obs { class: "closed".into(), replies: vec![] };
        }
        if oneway {
            let mut g = serde_json::to_vec(&json!({"method": "org.varlink.service.GetInfo"})).unwrap();
            g.push(0);
            let _ = self.s.as_mut().unwrap().write_all(&g);
            return match self.read_msg() {
                Ok(v) if v["parameters"].get("interfaces").is_some() => Obs { class: "none".into(), replies: vec![] },
                Ok(v) => {
                    // something was written for the oneway call; consume the GetInfo reply too
                    let _ = self.read_msg();
                    Obs { class: format!("reply-to-oneway:{}", v), replies: vec![v] }
                }
                Err("eof") => { self.s = None; Obs { class: "none-closed".into(), replies: vec![] } }
                Err(e) => { self.s = None; Obs { class: format!("other:{}", e), replies: vec![] } }
            };
        }
        let mut replies = Vec::new();
        loop {
            match self.read_msg() {
                Ok(v) => {
                    let cont = v["continues"] == json!(true);
                    replies.push(v);
                    if !cont {
                        break;
                    }
                }
                Err("eof") => {
                    self.s = None;
                    return Obs { class: if replies.is_empty() { "closed".into() } else { "truncated".into() }, replies };
                }
                Err(e) => {
                    self.s = None;
                    return Obs { class: format!("other:{}", e), replies };
                }
            }
        }
        let last = replies.last().unwrap();
        let class = match last["error"].as_str() {
            None => "success".to_string(),
            Some("org.varlink.certification.ClientIdError") => "clientid".into(),
            Some("org.varlink.certification.CertificationError") => "cert".into(),
            Some("org.varlink.service.InvalidParameter") => {
                // the generated dispatch closes the connection after this reply
                let closed = matches!(self.read_msg(), Err("eof"));
                self.s = None;
                if closed { "invalid".into() } else { "invalid-but-open".into() }
            }
            Some(e) => format!("other:{}", e),
        };
        Obs { class, replies }
    }
}

fn with_id(params: &Value, id: &str) -> Value {
    let mut p = params.clone();
    p["client_id"] = json!(id);
    p
}

/// the canonical call of `step`; checks the success reply's content
fn canonical(conn: &mut Conn, step: &str, id: &str) -> Result<Value, String> {
    let (_, params, want) = step_def(step);
    let p = if step == "Start" { None } else { Some(with_id(&params, id)) };
    let o = conn.call(&format!("org.varlink.certification.{}", step), p, mode_of(step));
    if step == "Test11" {
        return if o.class == "none" { Ok(json!({})) } else { Err(format!("canonical Test11 (oneway): {}", o.class)) };
    }
    if o.class != "success" {
        return Err(format!("canonical {} got {} {:?}", step, o.class, o.replies.last()));
    }
    let last = o.replies.last().unwrap();
    if step == "Start" {
        return last["parameters"]["client_id"].as_str().map(|s| json!(s)).ok_or_else(|| "Start without client_id".to_string());
    }
    if step == "Test10" {
        if o.replies.len() != 10 {
            return Err(format!("Test10 streamed {} replies, 10 expected", o.replies.len()));
        }
        for (i, r) in o.replies.iter().enumerate() {
            if r["parameters"]["string"] != json!(format!("Reply number {}", i + 1)) {
                return Err(format!("Test10 reply {} is {}", i + 1, r));
            }
        }
        return Ok(json!({}));
    }
    let got = last.get("parameters").cloned().unwrap_or(json!({}));
    // an absent optional may be written as null
    fn strip(v: &Value) -> Value {
        match v {
            Value::Object(o) => Value::Object(o.iter().filter(|(_, x)| !x.is_null()).map(|(k, x)| (k.clone(), strip(x))).collect()),
            Value::Array(a) => Value::Array(a.iter().map(strip).collect()),
            o => o.clone(),
        }
    }
    if strip(&got) != strip(&want) && got != want {
        return Err(format!("{} success reply carries {}, canonical value is {}", step, got, want));
    }
    Ok(got)
}

/// run the canonical prefix up to (excluding) `step`; returns the client id
fn prefix(conn: &mut Conn, step: &str) -> Result<String, String> {
    let id = canonical(conn, "Start", "")?.as_str().unwrap().to_string();
    for s in STEPS.iter().skip(1) {
        if *s == step {
            break;
        }
        canonical(conn, s, &id)?;
    }
    Ok(id)
}

/// systematic deviations at one step
fn deviations_at(svc: &Service, step: &str, thorough: bool, fails: &Mutex<Vec<Value>>, execs: &AtomicUsize, counts: &Mutex<(usize, usize, usize)>) {
    let (ty, params, _) = step_def(step);
    let method = format!("org.varlink.certification.{}", step);
    let canon_mode = mode_of(step);
    let mut fail = |variant: String, d: String| {
        fails.lock().unwrap().push(json!({"fail": true, "case": 0, "variant": variant, "detail": d, "sig": format!("{} {}", step, variant.split(":=").next().unwrap_or("")), "input": {"step": step}}));
    };
    // (a) value mutants with the canonical mode
    let mut ms = mutants_of(&params);
    if !thorough && ms.len() > 60 {
        let keep: Vec<(String, Value)> = ms.iter().enumerate().filter(|(i, _)| i % (ms.len() / 60 + 1) == 0).map(|(_, m)| m.clone()).collect();
        ms = keep;
    }
    // also: parameters member absent / null / wrong top-level type
    let mut tops: Vec<(String, Option<Value>, Cmp)> = Vec::new();
    for (name, m) in &ms {
        let c = cmp(&ty, Some(&params), Some(m));
        tops.push((name.clone(), Some(m.clone()), c));
    }
    for (name, mv, class) in tops {
        execs.fetch_add(1, Ordering::Relaxed);
        {
            let mut c = counts.lock().unwrap();
            match class { Cmp::Same => c.0 += 1, Cmp::Different => c.1 += 1, Cmp::Undecodable => c.2 += 1 }
        }
        let mut conn = Conn::new(&svc.path);
        let id = match prefix(&mut conn, step) {
            Ok(i) => i,
            Err(e) => { fail(format!("{}:prefix", name), e); continue; }
        };
        let p = with_id(mv.as_ref().unwrap(), &id);
        let o = conn.call(&method, if step == "Start" { mv.clone() } else { Some(p) }, canon_mode);
        let oneway = canon_mode == "oneway";
        let want = match (class, oneway) {
            (Cmp::Same, false) => "success",
            (Cmp::Same, true) => "none",
            (Cmp::Different, false) => "cert",
            (Cmp::Different, true) => "none",
            (Cmp::Undecodable, false) => "invalid",
            (Cmp::Undecodable, true) => "none-closed",
        };
        if step == "Start" {
            // Start takes no parameters: anything but none / {} deviates (the id is not needed)
        }
        // a request that still decodes to the canonical value (extra member, 1 for 1.0, null for an absent optional) is
        // neither "deviating" nor literally canonical: success and a certification error are both acceptable
        let tolerated = class == Cmp::Same && !oneway && o.class == "cert";
        if o.class != want && !tolerated {
            fail(name.clone(), format!("{} with {} = {:?} at the IDL's types: service answered {} ({:?}), expected {}", step, name, class, o.class, o.replies.last(), want));
            continue;
        }
        // position afterwards: a decodable call consumed the step, an undecodable one did not
        if step != "Start" && step != "End" {
            let mut c2 = Conn::new(&svc.path);
            let o2 = c2.call(&method, Some(with_id(&params, &id)), canon_mode);
            let want2 = match (class, oneway) {
                (Cmp::Undecodable, false) => "success",
                (Cmp::Undecodable, true) => "none",
                (_, false) => "clientid",
                (_, true) => "none",
            };
            if o2.class != want2 {
                fail(format!("{}:followup", name), format!("after {} ({:?}) the canonical {} got {}, expected {}", name, class, step, o2.class, want2));
            }
        }
    }
    // (b) every wrong call mode with canonical values
    for mode in ["call", "more", "oneway", "upgrade", "more+upgrade", "oneway+upgrade", "more+oneway"] {
        if mode == canon_mode {
            continue;
        }
        execs.fetch_add(1, Ordering::Relaxed);
        let mut conn = Conn::new(&svc.path);
        let id = match prefix(&mut conn, step) {
            Ok(i) => i,
            Err(e) => { fail(format!("mode={}:prefix", mode), e); continue; }
        };
        let o = conn.call(&method, if step == "Start" { None } else { Some(with_id(&params, &id)) }, mode);
        let oneway = mode.contains("oneway");
        let want = if oneway { "none" } else { "cert" };
        if o.class != want {
            fail(format!("mode={}", mode), format!("{} called with mode {} (canonical: {}): service answered {} ({:?}), expected {}", step, mode, canon_mode, o.class, o.replies.last(), want));
        }
    }
    // (b2) undecodable parameters under every call mode: never reaches the method, connection closed, position unchanged
    let und: Vec<(String, Value)> = ms.iter().filter(|m| cmp(&ty, Some(&params), Some(&m.1)) == Cmp::Undecodable).cloned().collect();
    for (k, (name, m)) in und.iter().enumerate() {
        if !thorough && k % 5 != 0 {
            continue;
        }
        for mode in ["call", "more", "oneway", "upgrade"] {
            if mode == canon_mode {
                continue;
            }
            execs.fetch_add(1, Ordering::Relaxed);
            let mut conn = Conn::new(&svc.path);
            let id = match prefix(&mut conn, step) {
                Ok(i) => i,
                Err(e) => { fail(format!("{} mode={}:prefix", name, mode), e); continue; }
            };
            let o = conn.call(&method, Some(with_id(m, &id)), mode);
            let want = if mode == "oneway" { "none-closed" } else { "invalid" };
            if o.class != want {
                fail(format!("{} mode={}", name, mode), format!("{} with undecodable {} and mode {}: service answered {} ({:?}), expected {}", step, name, mode, o.class, o.replies.last(), want));
            }
        }
    }
    // (c) out of order and unknown id
    if step != "Start" {
        execs.fetch_add(2, Ordering::Relaxed);
        let mut conn = Conn::new(&svc.path);
        match canonical(&mut conn, "Start", "") {
            Ok(idv) => {
                let id = idv.as_str().unwrap().to_string();
                if step != "Test01" {
                    let o = conn.call(&method, Some(with_id(&params, &id)), canon_mode);
                    let want = if canon_mode == "oneway" { "none" } else { "clientid" };
                    if o.class != want {
                        fail("out-of-order".into(), format!("{} right after Start: {} ({:?}), expected {}", step, o.class, o.replies.last(), want));
                    }
                }
                let o = conn.call(&method, Some(with_id(&params, "0000deadbeef")), canon_mode);
                let want = if canon_mode == "oneway" { "none" } else { "clientid" };
                if o.class != want {
                    fail("unknown-id".into(), format!("{} with an unknown client id: {} ({:?}), expected {}", step, o.class, o.replies.last(), want));
                }
                if step == "Test01" {
                    // ids are opaque strings: a re-spelling of a live id (as a number it would be "the same") was never issued
                    let up = id.to_uppercase();
                    let mut near: Vec<String> = vec![format!("0{}", id), format!("+{}", id), format!("{} ", id), format!(" {}", id), format!("0x{}", id), format!("{}0", id)];
                    if up != id {
                        near.push(up);
                    }
                    if let Some(stripped) = id.strip_prefix('0') {
                        near.push(stripped.to_string());
                    }
                    for n in near {
                        execs.fetch_add(1, Ordering::Relaxed);
                        let o = conn.call(&method, Some(with_id(&params, &n)), canon_mode);
                        if o.class != "clientid" {
                            fail("respelled-id".into(), format!("Test01 with client id {:?}, a re-spelling of the issued id {:?}: {} ({:?}), expected a client-id error", n, id, o.class, o.replies.last()));
                            break;
                        }
                    }
                }
            }
            Err(e) => fail("start".into(), e),
        }
    }
}

pub fn run(args: &[String]) {
    let thorough = args.iter().any(|a| a == "--tier=thorough");
    let cases = read_cases(); // MC_Cert traces
    let svc = Arc::new(Service::start("cert"));
    let fails: Arc<Mutex<Vec<Value>>> = Default::default();
    let execs = Arc::new(AtomicUsize::new(0));
    let counts: Arc<Mutex<(usize, usize, usize)>> = Default::default();
    // (1) systematic deviations, one thread per step
    let mut hs = Vec::new();
    let skip_sys = args.iter().any(|a| a == "--no-systematic");
    for step in STEPS.iter() {
        if skip_sys { break; }
        let (svc, fails, execs, counts) = (svc.clone(), fails.clone(), execs.clone(), counts.clone());
        let step = step.to_string();
        hs.push(std::thread::spawn(move || deviations_at(&svc, &step, thorough, &fails, &execs, &counts)));
    }
    for h in hs {
        let _ = h.join();
    }
    // (2) model behaviours
    let mut rng = Rng::new(seed() * 17 + 1);
    for (i, tr) in cases.iter().enumerate() {
        execs.fetch_add(1, Ordering::Relaxed);
        let mut conns: std::collections::HashMap<u64, (Conn, Option<String>)> = Default::default();
        for (k, e) in tr.as_array().unwrap().iter().enumerate() {
            let c = e["c"].as_u64().unwrap();
            let step = e["step"].as_str().unwrap();
            let dev = e["dev"].as_str().unwrap();
            let mode = e["mode"].as_str().unwrap();
            let known = e["known"].as_bool().unwrap();
            let want = e["out"].as_str().unwrap();
            let ent = conns.entry(c).or_insert_with(|| (Conn::new(&svc.path), None));
            let (ty, params, _) = step_def(step);
            // concretise the deviation
            let ms = mutants_of(&params);
            let pick = |class: Cmp, rng: &mut Rng| -> Option<Value> {
                let c: Vec<&(String, Value)> = ms.iter().filter(|m| cmp(&ty, Some(&params), Some(&m.1)) == class).collect();
                if c.is_empty() { None } else { Some(c[rng.below(c.len())].1.clone()) }
            };
            let pv = match dev {
                "canon" => Some(params.clone()),
                "wrongval" => if step == "Start" { Some(json!({"unexpected": 1})) } else { pick(Cmp::Different, &mut rng) },
                _ => pick(Cmp::Undecodable, &mut rng),
            };
            let pv = match pv {
                Some(p) => p,
                None => break, // this step has no such deviation (e.g. no parameters to get wrong): the rest of the behaviour is not comparable
            };
            let id = if known { ent.1.clone().unwrap_or_else(|| "0000deadbeef".into()) } else { "0000deadbeef".into() };
            let p = if step == "Start" { if dev == "canon" { None } else { Some(pv) } } else { Some(with_id(&pv, &id)) };
            let o = ent.0.call(&format!("org.varlink.certification.{}", step), p, mode);
            if step == "Start" && o.class == "success" {
                ent.1 = o.replies.last().and_then(|r| r["parameters"]["client_id"].as_str().map(String::from));
            }
            if o.class != want {
                fails.lock().unwrap().push(json!({"fail": true, "case": i, "variant": format!("call {}", k + 1), "detail": format!("call {} (client {} {} dev={} mode={} known={}): service answered {} ({:?}), model says {}", k + 1, c, step, dev, mode, known, o.class, o.replies.last(), want),
                    "sig": format!("{} {} {}", step, dev, mode), "input": tr}));
                break;
            }
        }
    }
    let fs = fails.lock().unwrap();
    for f in fs.iter().take(60) {
        emit(f);
    }
    let c = counts.lock().unwrap();
    emit(&json!({"summary": true, "cases": cases.len(), "executions": execs.load(Ordering::Relaxed), "failures": fs.len(),
        "mutants_same": c.0, "mutants_different": c.1, "mutants_undecodable": c.2}));
}

/// `vh certtrace`: N concurrent clients (canonical, with a few deviating ones) with interleaved steps
pub fn run_trace(args: &[String]) {
    let clients: usize = args.iter().find_map(|a| a.strip_prefix("--clients=").and_then(|s| s.parse().ok())).unwrap_or(8);
    let outp = args.iter().find_map(|a| a.strip_prefix("--out=")).unwrap_or("/dev/stdout").to_string();
    let svc = Arc::new(Service::start("certtrace"));
    let log: Arc<Mutex<Vec<Value>>> = Default::default();
    let mut hs = Vec::new();
    // stalled peers: a client that makes a deviating call whose (large) error reply it never reads, and keeps its connection open
    // while the others run.  The service is then blocked writing to it - on that connection only; every other client's canonical
    // run must go through as if the peer were not there.
    let stalled: usize = args.iter().find_map(|a| a.strip_prefix("--stalled=").and_then(|s| s.parse().ok())).unwrap_or(if clients >= 2 { 1 } else { 0 });
    let mut parked: Vec<UnixStream> = Vec::new();
    for _ in 0..stalled {
        let mut conn = Conn::new(&svc.path);
        if let Ok(v) = canonical(&mut conn, "Start", "") {
            let id = v.as_str().unwrap_or("").to_string();
            let _ = canonical(&mut conn, "Test01", &id);
            // Test02 with the wrong value and a member nobody asked for, larger than any socket buffer; the error reply quotes it
            let req = json!({"method": "org.varlink.certification.Test02", "parameters": {"client_id": id, "bool": false, "ballast": "x".repeat(6 << 20)}});
            let mut b = serde_json::to_vec(&req).unwrap();
            b.push(0);
            if let Some(mut s) = conn.s.take() {
                let _ = s.set_write_timeout(Some(Duration::from_secs(10)));
                let _ = s.write_all(&b);
                parked.push(s); // never read from
            }
        }
    }
    if stalled > 0 {
        std::thread::sleep(Duration::from_millis(150)); // the service is now (trying to) answer the stalled peers
    }
    for c in 0..clients {
        let (svc, log) = (svc.clone(), log.clone());
        hs.push(std::thread::spawn(move || {
            let mut rng = Rng::new(seed() * 7 + c as u64);
            let mut conn = Conn::new(&svc.path);
            let deviant = c % 4 == 3;
            let id = match canonical(&mut conn, "Start", "") {
                Ok(v) => v.as_str().unwrap().to_string(),
                Err(e) => { log.lock().unwrap().push(json!({"ev": "call", "c": c + 1, "step": "Start", "dev": "canon", "mode": "call", "known": true, "out": format!("failed:{}", e)})); return; }
            };
            log.lock().unwrap().push(json!({"ev": "call", "c": c + 1, "step": "Start", "dev": "canon", "mode": "call", "known": true, "out": "success"}));
            for s in STEPS.iter().skip(1) {
                if rng.chance(1, 2) {
                    std::thread::sleep(Duration::from_micros(rng.below(600) as u64));
                }
                if deviant && rng.chance(1, 3) {
                    // a deviating call with a wrong mode first (consumes the step), then the canonical one fails
                    let (_, params, _) = step_def(s);
                    let wrong = if mode_of(s) == "call" { "more" } else { "call" };
                    let o = conn.call(&format!("org.varlink.certification.{}", s), Some(with_id(&params, &id)), wrong);
                    log.lock().unwrap().push(json!({"ev": "call", "c": c + 1, "step": s, "dev": "canon", "mode": wrong, "known": true, "out": o.class}));
                }
                let (_, params, _) = step_def(s);
                let o = conn.call(&format!("org.varlink.certification.{}", s), Some(with_id(&params, &id)), mode_of(s));
                // content of success replies is checked by `vh cert`; here the class
                log.lock().unwrap().push(json!({"ev": "call", "c": c + 1, "step": s, "dev": "canon", "mode": mode_of(s), "known": true, "out": o.class}));
            }
        }));
    }
    for h in hs {
        let _ = h.join();
    }
    drop(parked);
    let mut f = std::io::BufWriter::new(std::fs::File::create(&outp).expect("trace"));
    let l = log.lock().unwrap();
    for e in l.iter() {
        let _ = writeln!(f, "{}", e);
    }
    let _ = f.flush();
    emit(&json!({"summary": true, "cases": clients, "executions": clients, "events": l.len(), "failures": 0}));
}
