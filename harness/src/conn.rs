//! Replay of Conn / ConnRef behaviours (specs/ConnRef.tla, specs/Conn.tla) into the real
//! `VarlinkService::handle` (in memory) and the real `varlink::listen` (unix / tcp sockets).
use std::io::{Read, Write};
use std::net::Shutdown;
use std::os::unix::net::UnixStream;
use std::panic::{catch_unwind, AssertUnwindSafe};
use std::sync::atomic::{AtomicBool, Ordering};
use std::sync::{mpsc, Arc};
use std::time::{Duration, Instant};

use serde_json::{json, Value};
use varlink::{ConnectionHandler, ListenConfig, VarlinkService};

use crate::svc::{self, SharedLog};
use crate::util::*;

pub const SVC_DESCR: &str = r#"# The Varlink Service Interface is provided by every varlink service. It
# describes the service and the interfaces it implements.
interface org.varlink.service

# Get a list of all the interfaces a service provides and information
# about the implementation.
method GetInfo() -> (
  vendor: string,
  product: string,
  version: string,
  url: string,
  interfaces: []string
)

# Get the description of an interface that is implemented by this service.
method GetInterfaceDescription(interface: string) -> (description: string)

# The requested interface was not found.
error InterfaceNotFound (interface: string)

# The requested method was not found
error MethodNotFound (method: string)

# The interface defines the requested method, but the service does not
# implement it.
error MethodNotImplemented (method: string)

# One of the passed parameters is invalid.
error InvalidParameter (parameter: string)
"#;

pub const GEN_DESCR: &str = include_str!("org.example.gen.varlink");

/// One concretised request.
#[derive(Clone, Debug)]
pub struct CReq {
    pub kind: String,
    pub tok: String,
    pub bytes: Vec<u8>, // without the terminating NUL
    pub method: String,
    pub more: bool,
    pub oneway: bool,
    pub script: Vec<String>,
    /// C06: replacement for `bytes` + NUL (may contain NULs, may lack the terminator)
    pub raw_full: Option<Vec<u8>>,
}

impl CReq {
    pub fn wire(&self) -> Vec<u8> {
        match &self.raw_full {
            Some(r) => r.clone(),
            None => {
                let mut b = self.bytes.clone();
                b.push(0);
                b
            }
        }
    }
}

fn flags(v: &mut Value, r: &Value, variety: usize) {
    let o = v.as_object_mut().unwrap();
    // a flag that is not set is left out or, for some requests, said explicitly: "oneway": false means the same as no member
    for (k, name) in ["more", "oneway", "upgrade"].iter().enumerate() {
        if r[*name].as_bool().unwrap_or(false) {
            o.insert((*name).into(), json!(true));
        } else if (variety + k) % 4 == 0 {
            o.insert((*name).into(), json!(false));
        }
    }
}

/// Concretise abstract request `r` (a record of ConnRef.Req) at position `i` (1-based).
/// `salt` makes tokens unique across connections / cases.
pub fn concretise(r: &Value, i: usize, salt: &str, pad: usize) -> CReq {
    let kind = r["k"].as_str().unwrap().to_string();
    let tok = format!("t{}x{}", i, salt);
    let script: Vec<String> = r["script"]
        .as_array()
        .map(|a| a.iter().map(|s| s.as_str().unwrap().to_string()).collect())
        .unwrap_or_default();
    let padding = "p".repeat(pad);
    let mk = |method: String, params: Option<Value>| -> (String, Vec<u8>) {
        let mut v = json!({ "method": method });
        if let Some(p) = params {
            v.as_object_mut().unwrap().insert("parameters".into(), p);
        }
        let variety = i + salt.bytes().map(|b| b as usize).sum::<usize>();
        flags(&mut v, r, variety);
        // JSON allows blanks and line breaks between tokens and around the text: some requests are written that way
        // (a chunk boundary may then fall behind white space that is insignificant - or, inside a string, significant)
        let bytes = if variety % 3 == 1 {
            let mut b = b"  ".to_vec();
            b.extend_from_slice(&serde_json::to_vec_pretty(&v).unwrap());
            b.extend_from_slice(b" \n");
            b
        } else {
            serde_json::to_vec(&v).unwrap()
        };
        (method, bytes)
    };
    let (method, bytes): (String, Vec<u8>) = match kind.as_str() {
        "GetInfo" => mk("org.varlink.service.GetInfo".into(), None),
        "DescrSvc" => mk(
            "org.varlink.service.GetInterfaceDescription".into(),
            Some(json!({"interface": "org.varlink.service"})),
        ),
        "DescrKnown" => mk(
            "org.varlink.service.GetInterfaceDescription".into(),
            Some(json!({"interface": "org.example.gen"})),
        ),
        "DescrUnknown" => mk(
            "org.varlink.service.GetInterfaceDescription".into(),
            Some(json!({"interface": format!("org.unknown.{}", tok)})),
        ),
        "DescrNoParams" => mk("org.varlink.service.GetInterfaceDescription".into(), None),
        "DescrIllTyped" => mk(
            "org.varlink.service.GetInterfaceDescription".into(),
            Some(json!({"interface": 7})),
        ),
        "SvcUnknownMethod" => mk(format!("org.varlink.service.M{}", tok), None),
        "UnknownIface" => mk(format!("org.unknown.{}.Method", tok), Some(json!({"x": padding}))),
        "NoDot" => mk(format!("NoDot{}", tok), None),
        "EmptyIface" => mk(format!(".M{}", tok), None),
        "PrefixIface" => mk(format!("org.example.M{}", tok), None),
        "SuffixIface" => mk(format!("org.example.gen.{}.Ping", tok), Some(json!({"ping": "x"}))),
        "TrailingDot" => mk("org.example.gen.".into(), Some(json!({"ping": tok}))),
        "GenOk" => mk(
            "org.example.gen.Ping".into(),
            Some(json!({"ping": format!(" {} a  b{} ", tok, padding)})),   // blanks inside a string are data
        ),
        "GenExtraMember" => mk(
            "org.example.gen.Ping".into(),
            Some(json!({"ping": format!("{}  ", tok), "extra": [1, {"a": null}, " "]})),
        ),
        "GenBadParams" => mk("org.example.gen.Ping".into(), Some(json!({"ping": 5}))),
        "GenNullParams" => mk("org.example.gen.Ping".into(), Some(Value::Null)),
        "GenNoParams" => mk("org.example.gen.Ping".into(), None),
        "GenNoArgs" => mk("org.example.gen.NoArgs".into(), None),
        "GenStream0" => mk("org.example.gen.Stream".into(), Some(json!({"n": 0, "tok": tok}))),
        "GenStream2" => mk("org.example.gen.Stream".into(), Some(json!({"n": 2, "tok": tok}))),
        "GenFail" => mk("org.example.gen.Fail".into(), Some(json!({"tok": tok}))),
        "GenUp" => mk("org.example.gen.Up".into(), Some(json!({"tok": tok}))),
        "GenUnknownMethod" => mk(format!("org.example.gen.Nope{}", tok), Some(json!({}))),
        "Script" => mk(
            "org.example.script.Run".into(),
            Some(json!({"script": script, "tok": tok})),
        ),
        // malformed classes: one fixed representative each (the C06 check enumerates many more)
        "BadJson" => (
            String::new(),
            br#"{"method":"org.example.gen.Ping","parameters":{"ping":}}"#.to_vec(),
        ),
        "BadUtf8" => (
            String::new(),
            b"{\"method\":\"org.example.gen.Ping\",\"parameters\":{\"ping\":\"\xff\xfe\"}}".to_vec(),
        ),
        "WrongMemberType" => (String::new(), br#"{"method":5}"#.to_vec()),
        "EmptyMsg" => (String::new(), Vec::new()),
        "NotObject" => (String::new(), b"17".to_vec()),
        "NoMethod" => (String::new(), br#"{"parameters":{"ping":"x"}}"#.to_vec()),
        k => panic!("unknown request kind {}", k),
    };
    CReq {
        kind,
        tok,
        bytes,
        method,
        more: r["more"].as_bool().unwrap_or(false),
        oneway: r["oneway"].as_bool().unwrap_or(false),
        script,
        raw_full: None,
    }
}

/// Expected concrete reply for abstract item `it`, the `ord`-th (0-based) item of its request.
/// Returns (expected json, wildcard paths) — wildcards mark members whose value the
/// property leaves open (serde's message text).
pub fn expected_reply(c: &CReq, it: &Value, ord: usize, script_written: &[usize]) -> (Value, bool) {
    let cont = it["cont"].as_bool().unwrap();
    let err = it["err"].as_str().unwrap();
    let arg = it["arg"].as_str().unwrap();
    let iface_of = |m: &str| -> String {
        match m.rfind('.') {
            Some(n) => m[..n].to_string(),
            None => m.to_string(),
        }
    };
    let mut wildcard_param = false;
    let mut v = match (err, arg) {
        ("", "info") => json!({"parameters": {
            "vendor": svc::VENDOR, "product": svc::PRODUCT, "version": svc::VERSION, "url": svc::URL,
            "interfaces": ["org.varlink.service", "org.example.gen", "org.example.script"]}}),
        ("", "descr_svc") => json!({"parameters": {"description": SVC_DESCR}}),
        ("", "descr_known") => json!({"parameters": {"description": GEN_DESCR}}),
        ("", "pong") => {
            let req: Value = serde_json::from_slice(&c.bytes).unwrap();
            json!({"parameters": {"pong": req["parameters"]["ping"]}})
        }
        ("", "empty") => json!({}),
        ("", "stream") => json!({"parameters": {"i": ord, "tok": c.tok}}),
        ("", "tok") => json!({"parameters": {"tok": c.tok}}),
        ("", "step") => json!({"parameters": {"step": script_written.get(ord).copied().unwrap_or(0), "tok": c.tok}}),
        ("ScriptError", "step") => json!({"error": "org.example.script.ScriptError",
            "parameters": {"step": script_written.get(ord).copied().unwrap_or(0), "tok": c.tok}}),
        ("InvalidParameter", "serde") => {
            wildcard_param = true;
            json!({"error": "org.varlink.service.InvalidParameter", "parameters": {"parameter": "*"}})
        }
        ("InvalidParameter", p) => {
            json!({"error": "org.varlink.service.InvalidParameter", "parameters": {"parameter": p}})
        }
        ("MethodNotFound", _) => {
            json!({"error": "org.varlink.service.MethodNotFound", "parameters": {"method": c.method}})
        }
        ("MethodNotImplemented", _) => {
            json!({"error": "org.varlink.service.MethodNotImplemented", "parameters": {"method": c.method}})
        }
        ("InterfaceNotFound", "method") => {
            json!({"error": "org.varlink.service.InterfaceNotFound", "parameters": {"interface": c.method}})
        }
        ("InterfaceNotFound", _) => {
            json!({"error": "org.varlink.service.InterfaceNotFound", "parameters": {"interface": iface_of(&c.method)}})
        }
        ("Failed", _) => json!({"error": "org.example.gen.Failed", "parameters": {"reason": c.tok}}),
        ("NeedsMore", _) => json!({"error": "org.example.gen.NeedsMore"}),
        (e, a) => panic!("no concretisation for item err={} arg={}", e, a),
    };
    if cont {
        v.as_object_mut().unwrap().insert("continues".into(), json!(true));
    }
    (v, wildcard_param)
}

/// `continues: false` and an absent member are the same thing on the wire (don't-care).
fn normalise_reply(v: &mut Value) {
    if let Some(o) = v.as_object_mut() {
        if o.get("continues") == Some(&json!(false)) {
            o.remove("continues");
        }
    }
}

pub fn reply_matches(exp: &Value, wildcard_param: bool, got: &Value) -> bool {
    let mut got = got.clone();
    normalise_reply(&mut got);
    let mut exp = exp.clone();
    if wildcard_param {
        // the InvalidParameter text produced from a serde error is not specified: any string
        let ok = got["parameters"]["parameter"].is_string();
        if !ok {
            return false;
        }
        got["parameters"]["parameter"] = json!("*");
        exp["parameters"]["parameter"] = json!("*");
    }
    // GetInfo: org.varlink.service first, the rest in any order, each exactly once
    if let (Some(ei), Some(gi)) = (
        exp["parameters"]["interfaces"].as_array().cloned(),
        got["parameters"]["interfaces"].as_array().cloned(),
    ) {
        if ei.first() != gi.first() {
            return false;
        }
        let mut a: Vec<String> = ei.iter().map(|x| x.to_string()).collect();
        let mut b: Vec<String> = gi.iter().map(|x| x.to_string()).collect();
        a.sort();
        b.sort();
        if a != b {
            return false;
        }
        exp["parameters"]["interfaces"] = json!([]);
        got["parameters"]["interfaces"] = json!([]);
    }
    exp == got
}

/// positions (1-based) of script steps that put a reply on the wire, derived from the spec's
/// per-step results
fn script_written(c: &CReq, results: &Value) -> Vec<usize> {
    let mut v = Vec::new();
    if let Some(rs) = results.as_array() {
        for (idx, s) in c.script.iter().enumerate() {
            if matches!(s.as_str(), "r" | "R" | "e" | "n") && rs.get(idx).and_then(|x| x.as_str()) == Some("ok") {
                v.push(idx + 1);
            }
        }
    }
    v
}

#[derive(Debug, Default, Clone)]
pub struct Obs {
    pub out: Vec<u8>,
    pub end: String, // open | closed | upgraded | hang | panic
    pub rets: Vec<Value>,
    pub tail: Vec<u8>,
    pub up_rx: Vec<u8>,
    pub up_tok_seen: bool,
    pub note: String,
}

/// The documented re-feed loop over the in-memory handler (varlink/src/test.rs): for each chunk, prepend the
/// tail RETURNED by the previous invocation — and nothing else: the reader handed to handle() is a temporary
/// over the caller's buffer, whatever the handler leaves unread in it is gone — and pass the upgraded interface on.
/// In-process calls into the library cannot be interrupted.  A watchdog thread notices a call that has not returned for
/// NO_RETURN_LIMIT, reports it as an observation (failure record + summary) and ends the process.
pub const NO_RETURN_LIMIT: Duration = Duration::from_secs(45);
static ACTIVE: std::sync::Mutex<Vec<(u64, std::time::Instant, String)>> = std::sync::Mutex::new(Vec::new());
static WATCHDOG: std::sync::Once = std::sync::Once::new();
static NEXT_ID: std::sync::atomic::AtomicU64 = std::sync::atomic::AtomicU64::new(1);

pub struct Watched(u64);
impl Drop for Watched {
    fn drop(&mut self) {
        ACTIVE.lock().unwrap_or_else(|e| e.into_inner()).retain(|x| x.0 != self.0);
    }
}
pub fn watched(what: &str, input: &[Vec<u8>]) -> Watched {
    WATCHDOG.call_once(|| {
        std::thread::spawn(|| loop {
            std::thread::sleep(Duration::from_secs(1));
            let stuck = ACTIVE.lock().unwrap_or_else(|e| e.into_inner()).iter().find(|x| x.1.elapsed() > NO_RETURN_LIMIT).map(|x| x.2.clone());
            if let Some(desc) = stuck {
                emit(&json!({"fail": true, "case": 0, "variant": "no-return", "sig": "call into the library does not return",
                             "detail": format!("a call into the library has not returned for {:?}: {}", NO_RETURN_LIMIT, desc)}));
                emit(&json!({"summary": true, "cases": 0, "executions": 0, "failures": 1, "aborted": "no-return"}));
                std::process::exit(0);
            }
        });
    });
    let id = NEXT_ID.fetch_add(1, std::sync::atomic::Ordering::Relaxed);
    let mut all: Vec<u8> = Vec::new();
    for c in input {
        all.extend_from_slice(c);
        all.push(b'|');
    }
    all.truncate(600);
    ACTIVE.lock().unwrap_or_else(|e| e.into_inner()).push((id, std::time::Instant::now(), format!("{} on input (chunks separated by |) {:?}", what, lossy(&all))));
    Watched(id)
}

pub fn run_mem(service: &VarlinkService, log: &SharedLog, chunks: &[Vec<u8>], up_tok: Option<&str>) -> Obs {
    let _w = watched("VarlinkService::handle", chunks);
    let mut obs = Obs::default();
    let mut tail: Vec<u8> = Vec::new();
    let mut iface: Option<String> = None;
    obs.end = "open".into();
    for chunk in chunks {
        let mut buf = std::mem::take(&mut tail);
        buf.extend_from_slice(chunk);
        let mut w: Vec<u8> = Vec::new();
        let mut slice: &[u8] = buf.as_slice();
        let r = catch_unwind(AssertUnwindSafe(|| service.handle(&mut slice, &mut w, iface.clone())));
        obs.out.extend_from_slice(&w);
        match r {
            Err(_) => {
                obs.end = "panic".into();
                obs.rets.push(json!("panic"));
                break;
            }
            Ok(Err(e)) => {
                obs.end = "closed".into();
                obs.note = format!("{:?}", e.kind());
                obs.rets.push(json!("err"));
                break;
            }
            Ok(Ok((t, i))) => {
                tail = t;
                iface = i;
                obs.rets.push(json!({"tail": tail.clone(), "upg": iface.is_some(),
                    "nout": obs.out.iter().filter(|b| **b == 0).count()}));
                if iface.is_some() {
                    obs.end = "upgraded".into();
                }
            }
        }
    }
    // an upgraded connection whose payload ended up in `tail` only (upgrade request was last in
    // its chunk and nothing followed) still has to deliver it: one final invocation at EOF, as
    // any caller must do when the peer closes.
    if obs.end == "upgraded" && !tail.is_empty() {
        let buf = std::mem::take(&mut tail);
        let mut w: Vec<u8> = Vec::new();
        let mut slice: &[u8] = buf.as_slice();
        let r = catch_unwind(AssertUnwindSafe(|| service.handle(&mut slice, &mut w, iface.clone())));
        obs.out.extend_from_slice(&w);
        match r {
            Err(_) => obs.end = "panic".into(),
            Ok(Err(_)) => {}
            Ok(Ok((t, _))) => {
                tail = t;
            }
        }
    }
    obs.tail = tail;
    if let Some(t) = up_tok {
        let l = log.lock().unwrap();
        if let Some(b) = l.up_rx.get(t) {
            obs.up_rx = b.clone();
        }
        obs.up_tok_seen = l.up_calls.get(t).copied().unwrap_or(0) > 0;
    }
    obs
}

/// A running `varlink::listen` server on a unix socket (or tcp) with the standard test service.
pub struct Server {
    pub address: String,
    pub log: SharedLog,
    stop: Arc<AtomicBool>,
    th: Option<std::thread::JoinHandle<()>>,
    done: mpsc::Receiver<varlink::Result<()>>,
    /// listen() did not return within the grace period after the stop flag was set (a worker never finished)
    pub stuck: bool,
}

impl Server {
    pub fn start(address: &str, initial: usize, max: usize) -> Server {
        let log: SharedLog = Default::default();
        let service = svc::standard_service(log.clone());
        Server::start_with(address, initial, max, service, log)
    }
    pub fn start_with(address: &str, initial: usize, max: usize, service: VarlinkService, log: SharedLog) -> Server {
        let stop = Arc::new(AtomicBool::new(false));
        let cfg = ListenConfig {
            initial_worker_threads: initial,
            max_worker_threads: max,
            idle_timeout: 0,
            stop_listening: Some(stop.clone()),
        };
        let addr = address.to_string();
        let (dtx, done) = mpsc::channel();
        let th = std::thread::spawn(move || {
            let _ = dtx.send(varlink::listen(service, &addr, &cfg));
        });
        // wait until it accepts
        let t0 = Instant::now();
        loop {
            // (std sockets, not the library's client: the server's readiness must not depend on the client code under test)
            if let Ok(s) = AnyStream::connect(address) {
                s.shutdown_write();
                break;
            }
            if t0.elapsed() > Duration::from_secs(10) {
                eprintln!("vh: server did not come up on {}", address);
                std::process::exit(2);
            }
            std::thread::sleep(Duration::from_millis(5));
        }
        Server { address: address.to_string(), log, stop, th: Some(th), done, stuck: false }
    }
    /// Set the stop flag and wait for listen() to return, but not for ever: the callers have made their observations by now, and
    /// a server whose workers never finish must not turn them into a tool time-out.
    pub fn stop(&mut self) -> Option<varlink::Result<()>> {
        self.stop.store(true, Ordering::SeqCst);
        let th = self.th.take()?;
        match self.done.recv_timeout(Duration::from_secs(20)) {
            Ok(r) => {
                let _ = th.join();
                Some(r)
            }
            Err(mpsc::RecvTimeoutError::Disconnected) => {
                let _ = th.join();
                Some(Err(varlink::context!(varlink::ErrorKind::Generic)))
            }
            Err(mpsc::RecvTimeoutError::Timeout) => {
                self.stuck = true;
                eprintln!("vh: listen() did not return within 20 s of the stop flag; leaving it behind");
                None
            }
        }
    }
}

impl Drop for Server {
    fn drop(&mut self) {
        let _ = self.stop();
    }
}

pub enum AnyStream {
    Unix(UnixStream),
    Tcp(std::net::TcpStream),
}
impl AnyStream {
    pub fn connect(address: &str) -> std::io::Result<AnyStream> {
        if let Some(p) = address.strip_prefix("unix:@") {
            use std::os::linux::net::SocketAddrExt;
            let a = std::os::unix::net::SocketAddr::from_abstract_name(p.split(';').next().unwrap())?;
            Ok(AnyStream::Unix(UnixStream::connect_addr(&a)?))
        } else if let Some(p) = address.strip_prefix("unix:") {
            Ok(AnyStream::Unix(UnixStream::connect(p.split(';').next().unwrap())?))
        } else if let Some(p) = address.strip_prefix("tcp:") {
            let s = std::net::TcpStream::connect(p)?;
            s.set_nodelay(true)?;
            Ok(AnyStream::Tcp(s))
        } else {
            Err(std::io::Error::new(std::io::ErrorKind::InvalidInput, "address"))
        }
    }
    pub fn try_clone(&self) -> std::io::Result<AnyStream> {
        Ok(match self {
            AnyStream::Unix(s) => AnyStream::Unix(s.try_clone()?),
            AnyStream::Tcp(s) => AnyStream::Tcp(s.try_clone()?),
        })
    }
    pub fn shutdown_write(&self) {
        let _ = match self {
            AnyStream::Unix(s) => s.shutdown(Shutdown::Write),
            AnyStream::Tcp(s) => s.shutdown(Shutdown::Write),
        };
    }
    pub fn set_read_timeout(&self, d: Duration) {
        let _ = match self {
            AnyStream::Unix(s) => s.set_read_timeout(Some(d)),
            AnyStream::Tcp(s) => s.set_read_timeout(Some(d)),
        };
    }
    pub fn set_write_timeout(&self, d: Duration) {
        let _ = match self {
            AnyStream::Unix(s) => s.set_write_timeout(Some(d)),
            AnyStream::Tcp(s) => s.set_write_timeout(Some(d)),
        };
    }
    pub fn barrier(&self) {
        match self {
            AnyStream::Unix(s) => {
                drain_barrier(s, Duration::from_secs(2));
            }
            AnyStream::Tcp(_) => std::thread::sleep(Duration::from_millis(2)),
        }
    }
}
impl Read for AnyStream {
    fn read(&mut self, b: &mut [u8]) -> std::io::Result<usize> {
        match self {
            AnyStream::Unix(s) => s.read(b),
            AnyStream::Tcp(s) => s.read(b),
        }
    }
}
impl Write for AnyStream {
    fn write(&mut self, b: &[u8]) -> std::io::Result<usize> {
        match self {
            AnyStream::Unix(s) => s.write(b),
            AnyStream::Tcp(s) => s.write(b),
        }
    }
    fn flush(&mut self) -> std::io::Result<()> {
        Ok(())
    }
}

pub const HANG_TIMEOUT: Duration = Duration::from_secs(4);

/// Drive one connection against a running server: write `chunks` (each a separate read on the
/// server side), then — unless `expect_upgraded` — a sentinel request whose reply marks "the
/// connection is still open and everything before has been answered".
pub fn run_socket(address: &str, log: &SharedLog, chunks: &[Vec<u8>], sentinel: Option<&[u8]>, sentinel_tok: &str, up_tok: Option<&str>) -> Obs {
    run_socket_sync(address, log, chunks, sentinel, sentinel_tok, up_tok, None)
}

/// As run_socket; with `sync`, the caller's group of connections rendezvous after connecting (nobody has sent anything yet)
/// and again before closing (everybody has waited for its replies while all the others were still open).
pub fn run_socket_sync(address: &str, log: &SharedLog, chunks: &[Vec<u8>], sentinel: Option<&[u8]>, sentinel_tok: &str, up_tok: Option<&str>, sync: Option<&std::sync::Barrier>) -> Obs {
    let mut obs = Obs::default();
    let s = match AnyStream::connect(address) {
        Ok(s) => s,
        Err(e) => {
            if let Some(b) = sync {
                // the barrier must be passed by every member of the group, whatever happens
                b.wait();
                b.wait();
            }
            obs.end = "connect-failed".into();
            obs.note = format!("{}", e);
            return obs;
        }
    };
    if let Some(b) = sync {
        b.wait();
    }
    s.set_read_timeout(HANG_TIMEOUT);
    // a server that stopped reading (all its workers gone) must not block the driver forever
    s.set_write_timeout(HANG_TIMEOUT);
    let mut rd = s.try_clone().unwrap();
    let (tx, rx) = mpsc::channel::<&'static str>();
    let stok = sentinel_tok.to_string();
    let reader = std::thread::spawn(move || {
        let mut all: Vec<u8> = Vec::new();
        let mut buf = [0u8; 65536];
        let mut signalled = false;
        let needle = stok.into_bytes();
        let mut status = "eof";
        let t0 = Instant::now();
        loop {
            // a peer that never stops sending (a server looping on a reply) must not keep the reader, and the run, going for ever
            if all.len() > (96 << 20) || (t0.elapsed() > Duration::from_secs(40) && all.len() > (4 << 20)) {
                status = "flood";
                break;
            }
            match rd.read(&mut buf) {
                Ok(0) => break,
                Ok(n) => {
                    all.extend_from_slice(&buf[..n]);
                    if !signalled && !needle.is_empty() && all.ends_with(&[0]) {
                        // sentinel reply complete?
                        if all.windows(needle.len()).any(|w| w == needle.as_slice()) {
                            let _ = tx.send("sentinel");
                            signalled = true;
                        }
                    }
                }
                Err(e) => {
                    match e.kind() {
                        std::io::ErrorKind::WouldBlock | std::io::ErrorKind::TimedOut => status = "timeout",
                        _ => status = "reset",
                    }
                    break;
                }
            }
        }
        if !signalled {
            let _ = tx.send(status);
        }
        (all, status)
    });
    let mut w = s.try_clone().unwrap();
    let mut write_failed = false;
    let mut write_stalled = false;
    for c in chunks {
        if c.is_empty() {
            continue;
        }
        if let Err(e) = w.write_all(c) {
            write_failed = true;
            write_stalled = matches!(e.kind(), std::io::ErrorKind::WouldBlock | std::io::ErrorKind::TimedOut);
            break;
        }
        s.barrier();
    }
    let mut first = "none";
    if let Some(sent) = sentinel {
        if !write_failed {
            let _ = w.write_all(sent);
        }
        first = rx.recv_timeout(HANG_TIMEOUT + Duration::from_secs(1)).unwrap_or("timeout");
    } else if sync.is_some() {
        // upgraded streams have no sentinel: give the replies time to arrive before the group closes
        let _ = rx.recv_timeout(Duration::from_millis(300));
    }
    if let Some(b) = sync {
        b.wait();
    }
    s.shutdown_write();
    let (all, status) = reader.join().unwrap();
    obs.out = all;
    if write_stalled {
        obs.note = format!("the server stopped reading: a write did not complete within {:?}", HANG_TIMEOUT);
    }
    if status == "flood" {
        obs.note = format!("the peer kept sending without end ({} bytes and going)", obs.out.len());
        obs.out.truncate(1 << 20);
    }
    obs.end = match (sentinel.is_some(), first, status) {
        _ if write_stalled || status == "flood" => "hang".into(),
        (true, "sentinel", _) => "open".into(),
        (true, "eof", _) | (true, "reset", _) => "closed".into(),
        (true, _, _) => "hang".into(),
        (false, _, "timeout") => "hang".into(),
        (false, _, _) => "eof".into(),
    };
    if let Some(t) = up_tok {
        // the worker thread records before it closes the socket, so after EOF the log is complete
        let l = log.lock().unwrap();
        if let Some(b) = l.up_rx.get(t) {
            obs.up_rx = b.clone();
        }
        obs.up_tok_seen = l.up_calls.get(t).copied().unwrap_or(0) > 0;
    }
    obs
}

/// Compare an observation with the spec's expectation for `reqs`.
pub struct Expect<'a> {
    pub creqs: &'a [CReq],
    pub out: &'a Value,     // tagged items
    pub end: &'a str,       // open | closed | upgraded
    pub at: usize,
    pub results: &'a Value, // per request script results
}

pub fn check_replies(exp: &Expect, obs_out: &[u8], allow_prefix: bool) -> Result<usize, String> {
    let (msgs, rest) = split_nul(obs_out);
    if !rest.is_empty() {
        return Err(format!("reply stream ends with an unterminated message: {}", lossy(&rest)));
    }
    let items = exp.out.as_array().unwrap();
    let mut ord_in_req: std::collections::HashMap<usize, usize> = Default::default();
    for (j, m) in msgs.iter().enumerate() {
        let got: Value = match serde_json::from_slice(m) {
            Ok(v) => v,
            Err(e) => return Err(format!("reply #{} is not JSON ({}): {}", j + 1, e, lossy(m))),
        };
        if j >= items.len() {
            return Err(format!("unexpected extra reply #{}: {} (expected {} replies)", j + 1, got, items.len()));
        }
        let it = &items[j];
        let ri = it["req"].as_u64().unwrap() as usize;
        let c = &exp.creqs[ri - 1];
        let ord = *ord_in_req.get(&ri).unwrap_or(&0);
        ord_in_req.insert(ri, ord + 1);
        let sw = script_written(c, &exp.results[ri - 1]);
        let (e, wild) = expected_reply(c, it, ord, &sw);
        if !reply_matches(&e, wild, &got) {
            return Err(format!(
                "reply #{} (answering request {} kind {}) differs: expected {} got {}",
                j + 1, ri, c.kind, e, got
            ));
        }
    }
    if msgs.len() < items.len() && !allow_prefix {
        let it = &items[msgs.len()];
        let ri = it["req"].as_u64().unwrap() as usize;
        return Err(format!(
            "missing reply #{} of {} (answering request {} kind {})",
            msgs.len() + 1, items.len(), ri, exp.creqs[ri - 1].kind
        ));
    }
    Ok(msgs.len())
}

pub fn check_script_results(exp: &Expect, log: &SharedLog) -> Result<(), String> {
    let l = log.lock().unwrap();
    let served_upto = match exp.end {
        "open" => exp.creqs.len(),
        _ => exp.at,
    };
    for (idx, c) in exp.creqs.iter().enumerate() {
        if c.kind != "Script" || idx + 1 > served_upto {
            continue;
        }
        let want: Vec<String> = exp.results[idx]
            .as_array()
            .map(|a| a.iter().map(|x| x.as_str().unwrap().to_string()).collect())
            .unwrap_or_default();
        match l.script.get(&c.tok) {
            None => return Err(format!("scripted request {} ({:?}) never reached the interface", idx + 1, c.script)),
            Some(got) => {
                if *got != want {
                    return Err(format!(
                        "script {:?} flags more={} oneway={}: step results {:?}, spec says {:?}",
                        c.script, c.more, c.oneway, got, want
                    ));
                }
            }
        }
    }
    Ok(())
}
