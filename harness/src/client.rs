//! `vh client` — replay of specs/Client.tla histories on a real `varlink::Connection` (built from a
//! socketpair through its public fields) with real `MethodCall` objects, against a scripted service
//! thread: the request itself carries the replies the service will send.
//! `vh clienttrace` — threads sharing one connection; the operation log is validated by Trace_Client.tla.
use std::collections::HashMap;
use std::io::{BufReader, Read, Write};
use std::os::unix::net::UnixStream;
use std::sync::atomic::{AtomicUsize, Ordering};
use std::sync::{Arc, Mutex, RwLock};
use std::time::Duration;

use serde_derive::{Deserialize, Serialize};
use serde_json::{json, Value};
use varlink::{Connection, ErrorKind, MethodCall};

use crate::util::*;

#[derive(Serialize, Deserialize, Debug, Clone, PartialEq)]
pub struct R {
    pub v: i64,
}

type Call = MethodCall<Value, R, varlink::Error>;

fn std_field(err: &str) -> &'static str {
    match err {
        "InterfaceNotFound" => "interface",
        "InvalidParameter" => "parameter",
        _ => "method",
    }
}

/// concrete reply for an abstract script entry; `pos` = 1-based position in the script
pub fn concrete_reply(r: &Value, c: u64, pos: usize) -> Value {
    let err = r["err"].as_str().unwrap();
    let par = r["par"].as_str().unwrap();
    let mut v = json!({});
    if err.is_empty() {
        match par {
            "ok" => v["parameters"] = json!({"v": pos}),
            "illtyped" => v["parameters"] = json!({"v": "not-a-number"}),
            _ => {}
        }
    } else if err == "Custom" {
        v["error"] = json!("org.example.custom.Oops");
        match par {
            "ok" => v["parameters"] = json!({"a": c, "pos": pos}),
            "illtyped" => v["parameters"] = json!([1, 2]),
            _ => {}
        }
    } else {
        v["error"] = json!(format!("org.varlink.service.{}", err));
        match par {
            "ok" => v["parameters"] = json!({std_field(err): format!("name-{}-{}", c, pos)}),
            "illtyped" => v["parameters"] = json!({std_field(err): 5}),
            _ => {}
        }
    }
    if r["cont"] == json!(true) {
        v["continues"] = json!(true);
    } else if (c as usize + pos) % 2 == 1 {
        // "no further reply" may be said by leaving the member out or by saying false (other implementations do): both occur
        v["continues"] = json!(false);
    }
    v
}

/// The scripted service: answers each non-oneway request with the replies listed in its parameters.
pub fn spawn_service(mut s: UnixStream, log: Arc<Mutex<Vec<Value>>>) -> std::thread::JoinHandle<()> {
    std::thread::spawn(move || {
        let mut buf: Vec<u8> = Vec::new();
        let mut tmp = [0u8; 4096];
        loop {
            let n = match s.read(&mut tmp) {
                Ok(0) | Err(_) => break,
                Ok(n) => n,
            };
            buf.extend_from_slice(&tmp[..n]);
            while let Some(p) = buf.iter().position(|b| *b == 0) {
                let msg: Vec<u8> = buf.drain(..=p).collect();
                let req: Value = serde_json::from_slice(&msg[..msg.len() - 1]).unwrap_or(json!({"NOT-JSON": lossy(&msg)}));
                log.lock().unwrap().push(req.clone());
                if req["oneway"] == json!(true) {
                    continue;
                }
                let c = req["parameters"]["c"].as_u64().unwrap_or(0);
                if let Some(script) = req["parameters"]["script"].as_array() {
                    let mut out = Vec::new();
                    for (i, r) in script.iter().enumerate() {
                        out.extend_from_slice(&serde_json::to_vec(&concrete_reply(r, c, i + 1)).unwrap());
                        out.push(0);
                    }
                    if s.write_all(&out).is_err() {
                        return;
                    }
                }
            }
        }
    })
}

pub fn make_connection() -> (Arc<RwLock<Connection>>, UnixStream, UnixStream) {
    let (a, b) = UnixStream::pair().unwrap();
    a.set_read_timeout(Some(Duration::from_secs(3))).unwrap();
    let mut conn = Connection::default();
    let rd: Box<dyn Read + Send + Sync> = Box::new(a.try_clone().unwrap());
    let wr: Box<dyn Write + Send + Sync> = Box::new(a.try_clone().unwrap());
    conn.reader = Some(BufReader::new(rd));
    conn.writer = Some(wr);
    (Arc::new(RwLock::new(conn)), a, b)
}

/// abstract outcome of a real result, in the vocabulary of Client.tla's Outcome()
pub fn classify(res: &Result<R, varlink::Error>, c: u64) -> (Value, Option<i64>) {
    match res {
        Ok(r) => (json!(["Ok"]), Some(r.v)),
        Err(e) => {
            let k = match e.kind() {
                ErrorKind::SerdeJsonDe(_) | ErrorKind::SerdeJsonSer(_) => json!(["Err", "PayloadError"]),
                ErrorKind::ConnectionBusy => json!(["Err", "ConnectionBusy"]),
                ErrorKind::MethodCalledAlready => json!(["Err", "MethodCalledAlready"]),
                ErrorKind::IteratorOldReply => json!(["Err", "IteratorOldReply"]),
                ErrorKind::ConnectionClosed => json!(["Err", "ConnectionClosed"]),
                ErrorKind::InterfaceNotFound(s) => json!(["Err", "InterfaceNotFound", std_payload(s, c)]),
                ErrorKind::InvalidParameter(s) => json!(["Err", "InvalidParameter", std_payload(s, c)]),
                ErrorKind::MethodNotFound(s) => json!(["Err", "MethodNotFound", std_payload(s, c)]),
                ErrorKind::MethodNotImplemented(s) => json!(["Err", "MethodNotImplemented", std_payload(s, c)]),
                ErrorKind::VarlinkErrorReply(r) => {
                    let par = if r.error.as_deref() != Some("org.example.custom.Oops") {
                        "wrong-error-name"
                    } else {
                        match &r.parameters {
                            None => "missing",
                            Some(p) if p.is_array() => "illtyped",
                            Some(p) if p["a"] == json!(c) => "ok",
                            Some(_) => "foreign",
                        }
                    };
                    json!(["Err", "VarlinkErrorReply", par])
                }
                other => json!(["Err", format!("{:?}", other)]),
            };
            (k, None)
        }
    }
}

fn std_payload(s: &str, c: u64) -> &'static str {
    if s.is_empty() {
        ""
    } else if s.starts_with(&format!("name-{}-", c)) {
        "name"
    } else {
        "foreign"
    }
}

fn unit_res(res: &Result<(), varlink::Error>) -> Value {
    match res {
        Ok(()) => json!(["Ok"]),
        Err(e) => match e.kind() {
            ErrorKind::ConnectionBusy => json!(["Err", "ConnectionBusy"]),
            ErrorKind::MethodCalledAlready => json!(["Err", "MethodCalledAlready"]),
            other => json!(["Err", format!("{:?}", other)]),
        },
    }
}

fn replay_one(case: &Value) -> Result<usize, String> {
    let h = case["h"].as_array().unwrap();
    let (conn, _a, b) = make_connection();
    let log: Arc<Mutex<Vec<Value>>> = Default::default();
    let svc = spawn_service(b, log.clone());
    let mut objs: HashMap<u64, Call> = HashMap::new();
    let mut consumed: HashMap<u64, i64> = HashMap::new();
    let mut steps = 0;
    let mut res: Result<(), String> = Ok(());
    for (k, e) in h.iter().enumerate() {
        let c = e["c"].as_u64().unwrap();
        let op = e["op"].as_str().unwrap();
        let mode = e["mode"].as_str().unwrap();
        let want = &e["res"];
        if !objs.contains_key(&c) {
            let call: Call = MethodCall::new(conn.clone(), format!("org.example.t.M{}", c), json!({"script": e["script"], "c": c}));
            objs.insert(c, call);
        }
        let o = objs.get_mut(&c).unwrap();
        steps += 1;
        let got: Value = match (op, mode) {
            ("send", "oneway") => unit_res(&o.oneway()),
            ("send", "more") => unit_res(&o.more().map(|_| ())),
            ("send", "call") | ("call", _) | ("send", "upgrade") => {
                // a completed call is one history entry without its mode: the wire says whether it was sent by call() or upgrade()
                let announced = case["wire"].as_array().unwrap().iter().find(|w| w["c"].as_u64() == Some(c)).and_then(|w| w["mode"].as_str()).unwrap_or("");
                let r = if mode == "upgrade" || (op == "call" && announced == "upgrade") { o.upgrade() } else { o.call() };
                let (k2, v) = classify(&r, c);
                if let Some(v) = v {
                    let n = consumed.entry(c).or_insert(0);
                    *n += 1;
                    if v != *n {
                        res = Err(format!("op {} ({} on object {}): reply #{} of its stream expected, got the one marked {}", k + 1, op, c, n, v));
                        break;
                    }
                } else if k2[0] == "Err" && !matches!(k2[1].as_str(), Some("ConnectionBusy") | Some("MethodCalledAlready")) {
                    *consumed.entry(c).or_insert(0) += 1;
                }
                k2
            }
            ("next", _) => match o.next() {
                None => json!(["None"]),
                Some(r) => {
                    let (k2, v) = classify(&r, c);
                    if let Some(v) = v {
                        let n = consumed.entry(c).or_insert(0);
                        *n += 1;
                        if v != *n {
                            res = Err(format!("op {} (next on object {}): reply #{} of its stream expected, got the one marked {}", k + 1, c, n, v));
                            break;
                        }
                    } else if k2[1] != "IteratorOldReply" {
                        *consumed.entry(c).or_insert(0) += 1;
                    }
                    k2
                }
            },
            _ => return Err(format!("unknown op {} {}", op, mode)),
        };
        if &got != want {
            res = Err(format!("op {} ({} {} on object {}): result {}, model says {}", k + 1, op, mode, c, got, want));
            break;
        }
    }
    // the connection's final state: free <=> a fresh call is not refused as busy
    if res.is_ok() {
        let want_free = case["free"].as_bool().unwrap();
        let mut probe: Call = MethodCall::new(conn.clone(), "org.example.t.Probe", json!({"script": [{"cont": false, "err": "", "par": "ok"}], "c": 99}));
        let r = probe.call();
        let busy = matches!(r.as_ref().err().map(|e| e.kind().clone()), Some(ErrorKind::ConnectionBusy));
        if want_free && busy {
            res = Err("after the history the connection should be free, but a new call is refused as busy".into());
        }
        if !want_free && !busy {
            res = Err(format!("after the history a call still owns the connection, but a new call was not refused as busy: {:?}", r.map_err(|e| format!("{:?}", e.kind()))));
        }
    }
    drop(objs);
    drop(conn);
    drop(_a);
    let _ = svc.join();
    res?;
    // what the service received = the model's wire (plus the probe when the connection was free)
    let got: Vec<(u64, String)> = log
        .lock()
        .unwrap()
        .iter()
        .filter(|r| r["parameters"]["c"] != json!(99))
        .map(|r| {
            let mode = wire_mode(r);
            (r["parameters"]["c"].as_u64().unwrap_or(0), mode.to_string())
        })
        .collect();
    let want: Vec<(u64, String)> = case["wire"].as_array().unwrap().iter().map(|w| (w["c"].as_u64().unwrap(), w["mode"].as_str().unwrap().to_string())).collect();
    if got != want {
        return Err(format!("the service received {:?}, model says the wire carries {:?} (a refused call must not write a byte)", got, want));
    }
    Ok(steps)
}

pub fn run(_args: &[String]) {
    let cases = Arc::new(read_cases());
    let next = Arc::new(AtomicUsize::new(0));
    let fails: Arc<Mutex<Vec<Value>>> = Default::default();
    let steps = Arc::new(AtomicUsize::new(0));
    let mut hs = Vec::new();
    for _ in 0..8 {
        let (cases, next, fails, steps) = (cases.clone(), next.clone(), fails.clone(), steps.clone());
        hs.push(std::thread::spawn(move || loop {
            let i = next.fetch_add(1, Ordering::SeqCst);
            if i >= cases.len() {
                break;
            }
            match replay_one(&cases[i]) {
                Ok(s) => {
                    steps.fetch_add(s, Ordering::Relaxed);
                }
                Err(d) => {
                    let ops: Vec<String> = cases[i]["h"].as_array().unwrap().iter().map(|e| format!("{}{}({})", e["op"].as_str().unwrap(), e["mode"].as_str().map(|m| if m.is_empty() { String::new() } else { format!(":{}", m) }).unwrap_or_default(), e["c"])).collect();
                    fails.lock().unwrap().push(json!({"fail": true, "case": i, "variant": "history", "detail": d, "sig": ops.join(" "), "input": cases[i]}));
                }
            }
        }));
    }
    for h in hs {
        let _ = h.join();
    }
    for f in fails.lock().unwrap().iter().take(50) {
        emit(f);
    }
    emit(&json!({"summary": true, "cases": cases.len(), "executions": cases.len(), "steps": steps.load(Ordering::Relaxed), "failures": fails.lock().unwrap().len()}));
}

/// The call mode a request on the wire announces: exactly the flags of that mode and no others.
fn wire_mode(r: &Value) -> &'static str {
    let f = |k: &str| r[k] == json!(true);
    match (f("more"), f("oneway"), f("upgrade")) {
        (false, false, false) => "call",
        (true, false, false) => "more",
        (false, true, false) => "oneway",
        (false, false, true) => "upgrade",
        _ => "mixed-flags",
    }
}

/// `vh clienttrace`: T threads share one connection, each runs a seeded random program; one record per run.
pub fn run_trace(args: &[String]) {
    std::panic::set_hook(Box::new(|_| {}));
    let runs: usize = args.iter().find_map(|a| a.strip_prefix("--runs=").and_then(|s| s.parse().ok())).unwrap_or(100);
    let max_threads: usize = args.iter().find_map(|a| a.strip_prefix("--threads=").and_then(|s| s.parse().ok())).unwrap_or(3);
    let outp = args.iter().find_map(|a| a.strip_prefix("--out=")).unwrap_or("/dev/stdout").to_string();
    let mut rng = Rng::new(seed() * 6151 + 3);
    let mut f = std::io::BufWriter::new(std::fs::File::create(&outp).expect("trace file"));
    let mut total_ops = 0usize;
    for r in 0..runs {
        let nthreads = 2 + rng.below(max_threads - 1);
        let nops = 2 + rng.below(3);
        let (conn, _a, b) = make_connection();
        let log: Arc<Mutex<Vec<Value>>> = Default::default();
        let svc = spawn_service(b, log.clone());
        let seq = Arc::new(AtomicUsize::new(1));
        let start = Arc::new(std::sync::Barrier::new(nthreads));
        let mut hs = Vec::new();
        for t in 1..=nthreads {
            let conn = conn.clone();
            let seq = seq.clone();
            let start = start.clone();
            let sd = rng.next();
            hs.push(std::thread::spawn(move || {
                let mut rng = Rng::new(sd);
                let mut ops: Vec<Value> = Vec::new();
                let mut objs: Vec<(u64, Call, bool)> = Vec::new(); // (id, object, is a more-call)
                let mut next_id = (t as u64) * 10 + 1;
                for _ in 0..nops {
                    // the k-th operations of all threads start together (a rendezvous, then a short spin so that being woken up
                    // late by the barrier does not serialise them), sometimes staggered on purpose
                    start.wait();
                    let t0 = std::time::Instant::now();
                    while t0.elapsed() < Duration::from_micros(150) {
                        std::hint::spin_loop();
                    }
                    if rng.chance(1, 3) {
                        std::thread::sleep(Duration::from_micros(rng.below(300) as u64));
                    }
                    // choose: new call on a fresh object (60%), next on an existing one (30%), resend (10%)
                    let choice = rng.below(10);
                    let (c, op, mode, script): (u64, &str, &str, Value) = if choice < 6 || objs.is_empty() {
                        let c = next_id;
                        next_id += 1;
                        let k = rng.below(3);
                        let finals = [json!({"cont": false, "err": "", "par": "ok"}), json!({"cont": false, "err": "InvalidParameter", "par": "ok"}),
                                      json!({"cont": false, "err": "Custom", "par": "ok"}), json!({"cont": false, "err": "MethodNotFound", "par": "missing"})];
                        let mut sc: Vec<Value> = (0..k).map(|_| json!({"cont": true, "err": "", "par": "ok"})).collect();
                        sc.push(finals[rng.below(finals.len())].clone());
                        let mode = ["call", "more", "more", "oneway", "upgrade"][rng.below(5)];
                        // a third of the requests are big: whatever a call does between looking at the connection and owning it
                        // (encoding, copying) then takes long enough for another thread to get in between
                        let pad = if rng.chance(1, 3) { "p".repeat(150_000) } else { String::new() };
                        let call: Call = MethodCall::new(conn.clone(), format!("org.example.t.M{}", c), json!({"script": sc, "c": c, "pad": pad}));
                        objs.push((c, call, mode == "more"));
                        (c, "send", mode, json!(sc))
                    } else if choice < 9 {
                        let i = rng.below(objs.len());
                        (objs[i].0, "next", "", json!([]))
                    } else {
                        let i = rng.below(objs.len());
                        (objs[i].0, "send", ["call", "more", "oneway", "upgrade"][rng.below(4)], json!([]))
                    };
                    let o = &mut objs.iter_mut().find(|x| x.0 == c).unwrap().1;
                    let s0 = seq.fetch_add(1, Ordering::SeqCst);
                    // a panic inside the library is data: it becomes the operation's (unexplainable) result
                    let res: Value = std::panic::catch_unwind(std::panic::AssertUnwindSafe(|| match (op, mode) {
                        ("send", "oneway") => unit_res(&o.oneway()),
                        ("send", "more") => unit_res(&o.more().map(|_| ())),
                        ("send", "upgrade") => classify(&o.upgrade(), c).0,
                        ("send", _) => classify(&o.call(), c).0,
                        _ => match o.next() {
                            None => json!(["None"]),
                            Some(r) => classify(&r, c).0,
                        },
                    })).unwrap_or_else(|_| json!(["Panic"]));
                    let s1 = seq.fetch_add(1, Ordering::SeqCst);
                    ops.push(json!({"op": op, "c": c, "mode": mode, "script": script, "res": res, "start": s0, "end": s1}));
                }
                ops
            }));
        }
        let threads: Vec<Vec<Value>> = hs.into_iter().map(|h| h.join().unwrap_or_else(|_| vec![json!({"op": "send", "c": 0, "mode": "call", "script": [], "res": ["Panic"], "start": 0, "end": 0})])).collect();
        total_ops += threads.iter().map(|t| t.len()).sum::<usize>();
        drop(conn);
        drop(_a);
        let _ = svc.join();
        let wire: Vec<Value> = log.lock().unwrap().iter().map(|r| {
            let mode = wire_mode(r);
            json!({"c": r["parameters"]["c"], "mode": mode})
        }).collect();
        let _ = writeln!(f, "{}", json!({"run": r, "threads": threads, "wire": wire}));
    }
    let _ = f.flush();
    emit(&json!({"summary": true, "cases": runs, "executions": runs, "ops": total_ops, "failures": 0}));
}

/// `vh clientreal`: histories of oneway / normal calls through the GENERATED client bindings against the real
/// `varlink::listen` server: every normal call must receive the reply to its own token (C04 client half).
pub fn run_real(_args: &[String]) {
    use crate::svc::gen::VarlinkClientInterface;
    let cases = read_cases();
    let dir = tmpdir("clientreal");
    let addr = format!("unix:{}/s", dir.display());
    let mut server = crate::conn::Server::start(&addr, 2, 8);
    let mut nfail = 0usize;
    for (i, case) in cases.iter().enumerate() {
        if nfail > 40 {
            break;
        }
        let res: Result<(), String> = (|| {
            let conn = Connection::with_address(&addr).map_err(|e| format!("connect: {:?}", e.kind()))?;
            let mut client = crate::svc::gen::VarlinkClient::new(conn.clone());
            for (k, e) in case["h"].as_array().unwrap().iter().enumerate() {
                let tok = format!("r{}o{}", i, k);
                if e["mode"] == "oneway" {
                    client.ping(tok).oneway().map_err(|e| format!("op {}: oneway failed: {}", k + 1, e))?;
                } else {
                    let r = client.ping(tok.clone()).call().map_err(|e| format!("op {}: call failed: {}", k + 1, e))?;
                    if r.pong != tok {
                        return Err(format!("op {}: call with token {} received the reply {:?} (reply stream misaligned by an earlier oneway call)", k + 1, tok, r.pong));
                    }
                }
            }
            let tok = format!("r{}final", i);
            let r = client.ping(tok.clone()).call().map_err(|e| format!("final call failed: {}", e))?;
            if r.pong != tok {
                return Err(format!("final call received {:?} instead of the reply to its own request", r.pong));
            }
            Ok(())
        })();
        if let Err(d) = res {
            nfail += 1;
            let ops: Vec<String> = case["h"].as_array().unwrap().iter().map(|e| if e["mode"] == "oneway" { "oneway".to_string() } else { "call".to_string() }).collect();
            emit(&json!({"fail": true, "case": i, "variant": "real-server", "detail": d, "sig": ops.join(" "), "input": case}));
        }
    }
    server.stop();
    let _ = std::fs::remove_dir_all(&dir);
    emit(&json!({"summary": true, "cases": cases.len(), "executions": cases.len(), "failures": nfail}));
}
