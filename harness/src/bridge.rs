//! `vh bridge` — C18: the real `varlink bridge` process between a scripted client (stdin / stdout pipes) and real
//! services (resolver mode: a resolver + two services hosting different interfaces; direct modes: --connect,
//! --activate, --bridge), compared with specs/Bridge.tla.
use std::io::{Read, Write};
use std::process::{Command, Stdio};
use std::sync::{Arc, Mutex};
use std::time::{Duration, Instant};

use serde_json::{json, Value};

use crate::conn::*;
use crate::svc::{self, SharedLog};
use crate::util::*;

struct Env {
    resolver: Server,
    a: Server,
    b: Server,
    addr_r: String,
    addr_a: String,
    dir: std::path::PathBuf,
}

fn start_env(tag: &str) -> Env {
    let dir = tmpdir(tag);
    let addr_a = format!("unix:{}/a", dir.display());
    let addr_b = format!("unix:{}/b", dir.display());
    let addr_r = format!("unix:{}/r", dir.display());
    let la: SharedLog = Default::default();
    let lb: SharedLog = Default::default();
    let a = Server::start_with(&addr_a, 2, 16, svc::gen_only_service(la.clone()), la);
    let b = Server::start_with(&addr_b, 2, 16, svc::script_only_service(lb.clone()), lb);
    let mut map = std::collections::HashMap::new();
    map.insert("org.example.gen".to_string(), addr_a.clone());
    map.insert("org.example.script".to_string(), addr_b.clone());
    let lr: SharedLog = Default::default();
    let resolver = Server::start_with(&addr_r, 2, 16, svc::resolver_service(map), lr);
    Env { resolver, a, b, addr_r, addr_a, dir }
}

/// concrete request and the replies the client must see for it
fn concretise(r: &Value, i: usize, salt: &str) -> (Value, Vec<Value>, String) {
    concretise_paced(r, i, salt, false)
}

/// `slow`: the scripted service (B) pauses before and between its replies, so that a client can leave while the bridge waits
fn concretise_paced(r: &Value, i: usize, salt: &str, slow: bool) -> (Value, Vec<Value>, String) {
    let (mut q, rs, tok) = concretise_fast(r, i, salt);
    if slow && q["method"] == "org.example.script.Run" {
        let steps: Vec<Value> = q["parameters"]["script"].as_array().unwrap().clone();
        let mut paced: Vec<Value> = Vec::new();
        let mut shift = 0u64;
        for st in steps {
            if st == "r" || st == "e" {
                paced.push(json!("z"));
                paced.push(json!("z"));
                shift += 2;
            }
            paced.push(st);
        }
        q["parameters"]["script"] = json!(paced);
        let _ = shift;
        // the step numbers in the replies move with the inserted pauses: compare them loosely (see reply_eq_loose_step)
    }
    (q, rs, tok)
}

fn concretise_fast(r: &Value, i: usize, salt: &str) -> (Value, Vec<Value>, String) {
    let tok = format!("b{}x{}", i, salt);
    let k = r["k"].as_str().unwrap();
    let on_a = r["svc"] == "A";
    match k {
        "getinfo" => (json!({"method": "org.varlink.service.GetInfo"}),
            vec![json!({"parameters": {"vendor": svc::RESOLVER_VENDOR, "product": "resolver", "version": "1", "url": "http://r", "interfaces": ["org.example.gen", "org.example.script"]}})], tok),
        "descr" => {
            // the description of an interface comes from the service that has it (the bridge routes by the `interface` argument)
            let (name, text) = if on_a { ("org.example.gen", crate::conn::GEN_DESCR) } else { ("org.example.script", svc::SCRIPT_DESCR) };
            (json!({"method": "org.varlink.service.GetInterfaceDescription", "parameters": {"interface": name}}), vec![json!({"parameters": {"description": text}})], tok)
        }
        "ok" => if on_a {
            // every third such call carries a value larger than the copy buffers of the bridge (8 KiB)
            let big = if (i + salt.len()) % 3 == 0 { format!("{}{}", tok, "P".repeat(20_000)) } else { tok.clone() };
            (json!({"method": "org.example.gen.Ping", "parameters": {"ping": big}}), vec![json!({"parameters": {"pong": big}})], tok)
        } else {
            (json!({"method": "org.example.script.Run", "parameters": {"script": ["r"], "tok": tok}}), vec![json!({"parameters": {"step": 1, "tok": tok}})], tok)
        },
        "stream" => if on_a {
            (json!({"method": "org.example.gen.Stream", "more": true, "parameters": {"n": 2, "tok": tok}}),
             vec![json!({"continues": true, "parameters": {"i": 0, "tok": tok}}), json!({"continues": true, "parameters": {"i": 1, "tok": tok}}), json!({"parameters": {"i": 2, "tok": tok}})], tok)
        } else {
            (json!({"method": "org.example.script.Run", "more": true, "parameters": {"script": ["c1", "r", "r", "c0", "r"], "tok": tok}}),
             vec![json!({"continues": true, "parameters": {"step": 2, "tok": tok}}), json!({"continues": true, "parameters": {"step": 3, "tok": tok}}), json!({"parameters": {"step": 5, "tok": tok}})], tok)
        },
        "oneway" => if on_a {
            (json!({"method": "org.example.gen.Ping", "oneway": true, "parameters": {"ping": tok}}), vec![], tok)
        } else {
            (json!({"method": "org.example.script.Run", "oneway": true, "parameters": {"script": ["r"], "tok": tok}}), vec![], tok)
        },
        "error" => if on_a {
            (json!({"method": "org.example.gen.Fail", "parameters": {"tok": tok}}), vec![json!({"error": "org.example.gen.Failed", "parameters": {"reason": tok}})], tok)
        } else {
            (json!({"method": "org.example.script.Run", "parameters": {"script": ["e"], "tok": tok}}), vec![json!({"error": "org.example.script.ScriptError", "parameters": {"step": 1, "tok": tok}})], tok)
        },
        "closing" => (json!({"method": "org.example.gen.Ping", "parameters": {"ping": 5, "marker": tok}}),
            vec![json!({"error": "org.varlink.service.InvalidParameter", "parameters": {"parameter": "*"}})], tok),
        "upgrade" => if on_a {
            (json!({"method": "org.example.gen.Up", "upgrade": true, "parameters": {"tok": tok}}), vec![json!({"parameters": {"tok": tok}})], tok)
        } else {
            (json!({"method": "org.example.script.Run", "upgrade": true, "parameters": {"script": ["r", "u"], "tok": tok}}), vec![json!({"parameters": {"step": 1, "tok": tok}})], tok)
        },
        other => panic!("kind {}", other),
    }
}

fn reply_eq(want: &Value, got: &Value) -> bool {
    let mut w = want.clone();
    let mut g = got.clone();
    if w["parameters"]["parameter"] == "*" && g["parameters"]["parameter"].is_string() {
        g["parameters"]["parameter"] = json!("*");
    }
    if let Some(o) = g.as_object_mut() {
        if o.get("continues") == Some(&json!(false)) {
            o.remove("continues");
        }
    }
    if let (Some(a), Some(b)) = (w["parameters"]["interfaces"].as_array().cloned(), g["parameters"]["interfaces"].as_array().cloned()) {
        let mut a: Vec<String> = a.iter().map(|x| x.to_string()).collect();
        let mut b: Vec<String> = b.iter().map(|x| x.to_string()).collect();
        a.sort();
        b.sort();
        if a != b { return false; }
        w["parameters"]["interfaces"] = json!([]);
        g["parameters"]["interfaces"] = json!([]);
    }
    w == g
}

/// `vh bridge --rawsweep`: what an upgraded service says first, in sizes around the copy buffer of the bridge (8192): the
/// greeting alone, or the upgrade reply plus the greeting, is an exact multiple of the buffer (a byte-size refinement of
/// Bridge.tla's `greet` / GreetingForwarded, in the direct mode where everything passes through the copy loops)
fn run_rawsweep(bin: &str) {
    let env = start_env("bridge-raw");
    let mut nfail = 0usize;
    let mut execs = 0usize;
    let mut lens: Vec<usize> = Vec::new();
    for k in 1..=3usize {
        for d in [-1i64, 0, 1] {
            lens.push((8192 * k as i64 + d) as usize);
        }
    }
    for (ci, base_len) in lens.iter().enumerate() {
        for with_reply in [false, true] {
            let tok = format!("raw{}{}", ci, if with_reply { "r" } else { "g" });
            let reply = json!({"parameters": {"step": 1, "tok": tok}});
            let reply_len = serde_json::to_vec(&reply).unwrap().len() + 1;
            // with_reply: reply + greeting together are base_len bytes
            let greet_len = if with_reply { base_len - reply_len } else { *base_len };
            let req = json!({"method": "org.example.script.Run", "upgrade": true, "parameters": {"script": ["r", "u", "g"], "tok": tok, "greet_len": greet_len}});
            let mut cmd = Command::new(bin);
            cmd.arg("bridge").arg("--connect").arg(env.b.address.clone());
            cmd.stdin(Stdio::piped()).stdout(Stdio::piped()).stderr(Stdio::piped());
            execs += 1;
            let mut child = match cmd.spawn() { Ok(c) => c, Err(e) => { emit(&json!({"fail": true, "case": ci, "variant": "rawsweep", "sig": "rawsweep spawn", "detail": format!("cannot start the bridge: {}", e)})); nfail += 1; continue; } };
            let mut stdin = child.stdin.take().unwrap();
            let mut stdout = child.stdout.take().unwrap();
            let mut b = serde_json::to_vec(&req).unwrap();
            b.push(0);
            let _ = stdin.write_all(&b);
            let _ = stdin.flush();
            // read reply + greeting, give up after 3 s without the expected amount
            let want_total = reply_len + greet_len;
            let (tx, rx) = std::sync::mpsc::channel::<Vec<u8>>();
            let rd = std::thread::spawn(move || {
                let mut all = Vec::new();
                let mut buf = [0u8; 65536];
                loop {
                    match stdout.read(&mut buf) {
                        Ok(0) | Err(_) => break,
                        Ok(n) => { all.extend_from_slice(&buf[..n]); let _ = tx.send(all.clone()); }
                    }
                }
            });
            let t0 = Instant::now();
            let mut got: Vec<u8> = Vec::new();
            while t0.elapsed() < Duration::from_secs(3) && got.len() < want_total {
                if let Ok(v) = rx.recv_timeout(Duration::from_millis(50)) { got = v; }
            }
            // what counts is what the client has while the session is still open (a client waiting for the rest would wait for ever)
            let got_while_open = got.len();
            drop(stdin);
            let t1 = Instant::now();
            let mut status = None;
            while t1.elapsed() < Duration::from_secs(6) {
                if let Ok(Some(s)) = child.try_wait() { status = Some(s); break; }
                std::thread::sleep(Duration::from_millis(2));
            }
            if status.is_none() { let _ = child.kill(); let _ = child.wait(); }
            let _ = rd.join();
            if got_while_open < want_total {
                nfail += 1;
                emit(&json!({"fail": true, "case": ci, "variant": "rawsweep", "sig": format!("rawsweep held back total={} with_reply={}", base_len, with_reply),
                    "detail": format!("upgraded service said {} bytes right behind its {}-byte reply; 3 s later the client of `bridge --connect` (its side still open) had received only {} of {} bytes", greet_len, reply_len, got_while_open, want_total)}));
                continue;
            }
            let mut expect = serde_json::to_vec(&reply).unwrap();
            expect.push(0);
            let mut hello = format!("HELLO-{}\n", tok).into_bytes();
            hello.extend(std::iter::repeat(b'x').take(greet_len - hello.len() - 501));
            hello.push(b'\n');
            hello.extend(std::iter::repeat(b'y').take(500));
            expect.extend_from_slice(&hello);
            // the reply is compared as JSON, the raw part byte for byte
            let (msgs, _) = split_nul(&got);
            let reply_ok = msgs.first().and_then(|m| serde_json::from_slice::<Value>(m).ok()).map(|v| reply_eq(&reply, &v)).unwrap_or(false);
            let raw_got: Vec<u8> = got.iter().position(|b| *b == 0).map(|p| got[p + 1..].to_vec()).unwrap_or_default();
            if !reply_ok || raw_got != hello {
                nfail += 1;
                emit(&json!({"fail": true, "case": ci, "variant": "rawsweep", "sig": format!("rawsweep total={} with_reply={}", base_len, with_reply),
                    "detail": format!("upgraded service said {} bytes right behind its reply (reply {} bytes{}); through `bridge --connect` the client received {} raw bytes (first difference at {:?}), reply ok: {}",
                        hello.len(), reply_len, if with_reply { ", together a multiple of 8192 +- 1" } else { "" }, raw_got.len(),
                        raw_got.iter().zip(hello.iter()).position(|(a, b)| a != b).or(if raw_got.len() != hello.len() { Some(raw_got.len().min(hello.len())) } else { None }), reply_ok)}));
            } else if !status.map(|s| s.success()).unwrap_or(false) {
                nfail += 1;
                emit(&json!({"fail": true, "case": ci, "variant": "rawsweep", "sig": "rawsweep exit", "detail": format!("bridge exit status {:?} after an upgraded session the client ended", status)}));
            }
        }
    }
    emit(&json!({"summary": true, "cases": lens.len() * 2, "executions": execs, "failures": nfail}));
}

/// `vh bridge --burst`: the client leaves while the bridge is in the middle of forwarding to it.  The service answers with far more
/// than the pipe to the client holds, the client reads nothing and then closes its reading end (the bridge sits in write(2) at that
/// moment and is woken with "nobody there"), its writing end a little later.  A side has closed: the bridge stops and reports success
/// (Bridge.tla: ClientGone while relaying; what was forwarded is a prefix).
fn run_burst(bin: &str) {
    let env = start_env("bridge-burst");
    let mut nfail = 0usize;
    let mut execs = 0usize;
    for (ci, (mode, size)) in [("connect", 1usize << 20), ("resolver", 1 << 20), ("connect", 300_000), ("resolver", 5 << 20)].iter().enumerate() {
        let big = "B".repeat(*size);
        let req = json!({"method": "org.example.gen.Ping", "parameters": {"ping": big}});
        let mut cmd = Command::new(bin);
        if *mode == "resolver" { cmd.arg("-R").arg(&env.addr_r).arg("bridge"); } else { cmd.arg("bridge").arg("--connect").arg(&env.addr_a); }
        cmd.stdin(Stdio::piped()).stdout(Stdio::piped()).stderr(Stdio::piped());
        execs += 1;
        let mut child = match cmd.spawn() { Ok(c) => c, Err(e) => { emit(&json!({"fail": true, "case": ci, "variant": "burst", "sig": "burst spawn", "detail": format!("cannot start the bridge: {}", e)})); nfail += 1; continue; } };
        let stdin = child.stdin.take().unwrap();
        let stdout = child.stdout.take().unwrap();
        let mut b = serde_json::to_vec(&req).unwrap();
        b.push(0);
        // the request is larger than the pipe too: written from a thread of its own
        let wr = std::thread::spawn(move || { let mut stdin = stdin; let _ = stdin.write_all(&b); let _ = stdin.flush(); stdin });
        // the client does not read: the bridge fills the pipe with the beginning of the reply and blocks
        let t0 = Instant::now();
        let mut pending = 0i32;
        while t0.elapsed() < Duration::from_secs(5) {
            use std::os::unix::io::AsRawFd;
            unsafe { libc::ioctl(stdout.as_raw_fd(), libc::FIONREAD, &mut pending); }
            if pending >= 60000 { break; }
            std::thread::sleep(Duration::from_millis(5));
        }
        std::thread::sleep(Duration::from_millis(60));
        drop(stdout); // the client stops reading
        let stdin = wr.join().ok();
        std::thread::sleep(Duration::from_millis(100));
        drop(stdin); // ... and closes its writing end
        let t1 = Instant::now();
        let mut status = None;
        while t1.elapsed() < Duration::from_secs(6) {
            if let Ok(Some(s)) = child.try_wait() { status = Some(s); break; }
            std::thread::sleep(Duration::from_millis(2));
        }
        if status.is_none() { let _ = child.kill(); let _ = child.wait(); }
        let mut stderr = String::new();
        if let Some(mut e) = child.stderr.take() { let _ = e.read_to_string(&mut stderr); }
        let sig = format!("burst {} {}", mode, size);
        if pending < 60000 {
            nfail += 1;
            emit(&json!({"fail": true, "case": ci, "variant": "burst", "sig": sig, "detail": format!("a {}-byte reply was due; after 5 s only {} bytes had been forwarded to the client's pipe", size, pending)}));
        } else {
            match status {
                None => { nfail += 1; emit(&json!({"fail": true, "case": ci, "variant": "burst", "sig": sig, "detail": "the client left in the middle of a large reply; the bridge did not stop within 6 s"})); }
                Some(s) if !s.success() => { nfail += 1; emit(&json!({"fail": true, "case": ci, "variant": "burst", "sig": sig,
                    "detail": format!("the client left in the middle of a large reply (stopped reading, then closed): bridge exit status {:?}, expected success (a side hung up) -- stderr {:?}", s, stderr.chars().take(200).collect::<String>())})); }
                _ => {}
            }
        }
    }
    emit(&json!({"summary": true, "cases": 4, "executions": execs, "failures": nfail}));
}

pub fn run(args: &[String]) {
    let bin = std::env::var("VERIF_VARLINK_BIN").expect("VERIF_VARLINK_BIN");
    if args.iter().any(|a| a == "--rawsweep") {
        run_rawsweep(&bin);
        return;
    }
    if args.iter().any(|a| a == "--burst") {
        run_burst(&bin);
        return;
    }
    let sub: String = args.iter().find_map(|a| a.strip_prefix("--direct=")).unwrap_or("connect").to_string();
    // --abandon: the client writes its requests and closes its side at once, without waiting for the replies (termination clause)
    // --abandon-readend: the client stops reading first (closes its end of the bridge's stdout) while the slow service has not
    // answered, and closes its writing end only later: the bridge learns about it when it tries to forward the reply
    let readend = args.iter().any(|a| a == "--abandon-readend");
    let abandon = readend || args.iter().any(|a| a == "--abandon");
    let cases = read_cases();
    let env = start_env("bridge");
    let exe = std::env::current_exe().unwrap().display().to_string();
    let mut nfail = 0usize;
    let mut execs = 0usize;
    for (ci, c) in cases.iter().enumerate() {
        if nfail > 40 {
            break; // enough evidence; every further failing case costs its time-outs
        }
        let mode = c["mode"].as_str().unwrap();
        let reqs = c["reqs"].as_array().unwrap();
        let payload_n = c["payload"].as_u64().unwrap() as usize;
        let pipelined = c["pipelined"].as_bool().unwrap();
        let want_exit = c["exit"].as_str().unwrap();
        let salt = format!("{}{}", ci, if pipelined { "p" } else { "s" });
        // the upgraded service speaks first
        let greet = c["greet"] == json!(true);
        let conc: Vec<(Value, Vec<Value>, String)> = reqs.iter().enumerate().map(|(i, r)| {
            let (mut q, rs, tok) = concretise_paced(r, i + 1, &salt, abandon);
            if greet && r["k"] == "upgrade" && q["method"] == "org.example.script.Run" {
                q["parameters"]["script"] = json!(["r", "u", "g"]);
            }
            (q, rs, tok)
        }).collect();
        // who ends an upgraded session: the client (closes its side) or the service (asked to say goodbye and hang up)
        let service_ends = c["upEnd"] == "service" && payload_n > 0;

        let payload: Vec<u8> = if payload_n > 0 { format!("PAYLOAD-{}-first\nPAYLOAD-{}-second\n{}", salt, salt, if service_ends { "HANGUP\n" } else { "" }).into_bytes() } else { Vec::new() };
        let mut cmd = Command::new(&bin);
        let variant;
        if mode == "resolver" {
            cmd.arg("-R").arg(&env.addr_r).arg("bridge");
            variant = "resolver".to_string();
        } else {
            match sub.as_str() {
                "connect" => { cmd.arg("bridge").arg("--connect").arg(&env.addr_a); }
                "activate" => { cmd.arg("--activate").arg(format!("{} actserve --varlink=$VARLINK_ADDRESS", exe)).arg("bridge"); }
                _ => { cmd.arg("--bridge").arg(format!("{} stdioserve", exe)).arg("bridge"); }
            }
            variant = format!("direct-{}", sub);
        }
        cmd.stdin(Stdio::piped()).stdout(Stdio::piped()).stderr(Stdio::piped());
        execs += 1;
        let mut fail = |d: String| {
            nfail += 1;
            if nfail <= 40 {
                let kinds: Vec<String> = reqs.iter().map(|r| format!("{}{}", r["k"].as_str().unwrap(), r["svc"].as_str().unwrap())).collect();
                emit(&json!({"fail": true, "case": ci, "variant": variant, "detail": d, "sig": format!("{} {} pipelined={} payload={}", variant, kinds.join(","), pipelined, payload_n), "input": c}));
            }
        };
        let mut child = match cmd.spawn() {
            Ok(ch) => ch,
            Err(e) => { fail(format!("cannot start the bridge: {}", e)); continue; }
        };
        let mut stdin = child.stdin.take().unwrap();
        let mut stdout = child.stdout.take().unwrap();
        let collected: Arc<Mutex<Vec<u8>>> = Default::default();
        let c2 = collected.clone();
        // (polling, so that a client that "goes away" can close its end of the bridge's stdout at any moment)
        let gone = Arc::new(std::sync::atomic::AtomicBool::new(false));
        let gone2 = gone.clone();
        let reader = std::thread::spawn(move || {
            use std::os::unix::io::AsRawFd;
            let mut buf = [0u8; 65536];
            let fd = stdout.as_raw_fd();
            loop {
                if gone2.load(std::sync::atomic::Ordering::SeqCst) {
                    break;
                }
                let mut pfd = libc::pollfd { fd, events: libc::POLLIN, revents: 0 };
                let r = unsafe { libc::poll(&mut pfd, 1, 10) };
                if r > 0 {
                    match stdout.read(&mut buf) {
                        Ok(0) | Err(_) => break,
                        Ok(n) => c2.lock().unwrap().extend_from_slice(&buf[..n]),
                    }
                }
            }
            drop(stdout);
        });
        // the replies the model says the client sees: [req, n] = n-th reply of request req
        let expected: Vec<Value> = c["out"].as_array().unwrap().iter().map(|o| conc[o["req"].as_u64().unwrap() as usize - 1].1[o["n"].as_u64().unwrap() as usize - 1].clone()).collect();
        let per_req: Vec<usize> = (1..=conc.len()).map(|k| c["out"].as_array().unwrap().iter().filter(|o| o["req"].as_u64().unwrap() as usize == k).count()).collect();
        let count_msgs = |c: &Arc<Mutex<Vec<u8>>>| c.lock().unwrap().iter().filter(|b| **b == 0).count();
        let wait_msgs = |n: usize, c: &Arc<Mutex<Vec<u8>>>| -> bool {
            let t0 = Instant::now();
            while count_msgs(c) < n {
                if t0.elapsed() > Duration::from_secs(4) { return false; }
                std::thread::sleep(Duration::from_millis(1));
            }
            true
        };
        let mut stalled = None;
        if abandon {
            let mut all = Vec::new();
            for (q, _, _) in &conc {
                all.extend_from_slice(&serde_json::to_vec(q).unwrap());
                all.push(0);
            }
            let _ = stdin.write_all(&all);
            let _ = stdin.flush();
            // long enough for the bridge to be in the middle of the conversation (the slow service has not answered yet)
            std::thread::sleep(Duration::from_millis(30 + (ci as u64 % 4) * 40));
            gone.store(true, std::sync::atomic::Ordering::SeqCst);
            if readend {
                // the reading end is closed (the reader thread drops it within 10 ms); the writing end stays open while the service's
                // replies arrive at the bridge, which finds nobody to forward them to
                let t0 = Instant::now();
                while t0.elapsed() < Duration::from_millis(1500) {
                    if let Ok(Some(_)) = child.try_wait() { break; }
                    std::thread::sleep(Duration::from_millis(5));
                }
            }
        } else if pipelined {
            let mut all = Vec::new();
            for (q, _, _) in &conc {
                all.extend_from_slice(&serde_json::to_vec(q).unwrap());
                all.push(0);
            }
            all.extend_from_slice(&payload);
            let _ = stdin.write_all(&all);
            let _ = stdin.flush();
            if !wait_msgs(expected.len(), &collected) {
                stalled = Some(format!("only {} of {} expected replies arrived within 4 s", count_msgs(&collected), expected.len()));
            }
        } else {
            let mut seen = 0;
            for (k, (q, _rs, _)) in conc.iter().enumerate() {
                let mut b = serde_json::to_vec(q).unwrap();
                b.push(0);
                if stdin.write_all(&b).is_err() { break; }
                let _ = stdin.flush();
                seen += per_req[k];
                if !wait_msgs(seen, &collected) {
                    stalled = Some(format!("reply to request {} did not arrive within 4 s ({} of {} so far)", q["method"], count_msgs(&collected), seen));
                    break;
                }
                if ci % 3 == 0 && k + 1 < conc.len() {
                    // between two requests (the session is idle) the bridge is stopped and continued (job control, a debugger
                    // attaching): its blocking calls are interrupted, which changes nothing for the session
                    let pid = child.id() as libc::pid_t;
                    std::thread::sleep(Duration::from_millis(5));
                    unsafe { libc::kill(pid, libc::SIGSTOP); }
                    std::thread::sleep(Duration::from_millis(15));
                    unsafe { libc::kill(pid, libc::SIGCONT); }
                    std::thread::sleep(Duration::from_millis(5));
                }
            }
            if stalled.is_none() && !payload.is_empty() {
                let _ = stdin.write_all(&payload);
                let _ = stdin.flush();
            }
        }
        // upgraded payload: wait until the service has it (or give up), then the client closes its side
        let up_tok = reqs.iter().position(|r| r["k"] == "upgrade").map(|i| conc[i].2.clone());
        let log_of_up = if reqs.last().map(|r| r["svc"] == "B").unwrap_or(false) && mode == "resolver" { env.b.log.clone() } else { env.a.log.clone() };
        if stalled.is_none() && !payload.is_empty() && (mode == "resolver" || sub == "connect") {
            let t0 = Instant::now();
            loop {
                let have = up_tok.as_ref().and_then(|t| log_of_up.lock().unwrap().up_rx.get(t).map(|b| b.len())).unwrap_or(0);
                if have >= payload.len() || t0.elapsed() > Duration::from_secs(3) { break; }
                std::thread::sleep(Duration::from_millis(2));
            }
        }
        // termination: by the client closing its side, or (the client's side still open) by the service hanging up
        let upgrade_reached = c["bye"].as_u64().unwrap_or(0) == 1;
        let mut status = None;
        let mut stayed = false;
        if service_ends && upgrade_reached && stalled.is_none() {
            let t0 = Instant::now();
            while t0.elapsed() < Duration::from_secs(6) {
                if let Ok(Some(s)) = child.try_wait() { status = Some(s); break; }
                std::thread::sleep(Duration::from_millis(2));
            }
            stayed = status.is_none();
        }
        drop(stdin);
        let t0 = Instant::now();
        while status.is_none() && t0.elapsed() < Duration::from_secs(6) {
            if let Ok(Some(s)) = child.try_wait() { status = Some(s); break; }
            std::thread::sleep(Duration::from_millis(2));
        }
        if status.is_none() {
            let _ = child.kill();
            let _ = child.wait();
        }
        let _ = reader.join();
        let mut stderr = String::new();
        if let Some(mut e) = child.stderr.take() { let _ = e.read_to_string(&mut stderr); }
        let out = collected.lock().unwrap().clone();
        // compare
        let (msgs, rest) = split_nul(&out);
        let mut problem: Option<String> = stalled;
        if problem.is_none() {
            let got: Vec<Value> = msgs.iter().map(|m| serde_json::from_slice(m).unwrap_or(json!({"NOT-JSON": lossy(m)}))).collect();
            if abandon {
                // whatever was forwarded before the bridge noticed is the beginning of the direct conversation, nothing else
                // (the pauses inserted into the scripted service's replies shift its step numbers: not compared here)
                let nostep = |v: &Value| { let mut v = v.clone(); if v["parameters"].get("step").is_some() { v["parameters"]["step"] = json!(0); } v };
                if got.len() > expected.len() || !expected.iter().zip(got.iter()).all(|(w, g)| reply_eq(&nostep(w), &nostep(g))) {
                    problem = Some(format!("client (gone right after its last request) was sent {:?} + {:?}, not a prefix of the direct conversation {:?}", got, lossy(&rest), expected));
                }
            } else if got.len() != expected.len() || !expected.iter().zip(got.iter()).all(|(w, g)| reply_eq(w, g)) {
                problem = Some(format!("client saw {:?}{}, direct conversation gives {:?}", got, if rest.is_empty() { String::new() } else { format!(" + raw {:?}", lossy(&rest)) }, expected));
            } else if !rest.is_empty() && String::from_utf8_lossy(&rest).contains("PAYLOAD") {
                problem = Some(format!("the client's own payload came back to it: {:?}", lossy(&rest)));
            }
        }
        if problem.is_none() && !payload.is_empty() && c["rawToSvc"].as_u64().unwrap() as usize == payload_n && (mode == "resolver" || sub == "connect") {
            let have = up_tok.as_ref().and_then(|t| log_of_up.lock().unwrap().up_rx.get(t).cloned()).unwrap_or_default();
            if have != payload {
                problem = Some(format!("upgraded service received {:?}, the client sent {:?}", lossy(&have), lossy(&payload)));
            }
        }
        if problem.is_none() && greet && c["hello"].as_u64().unwrap_or(0) == 1 {
            let hello = format!("HELLO-{}\n", up_tok.clone().unwrap_or_default());
            if !String::from_utf8_lossy(&rest).contains(&hello) {
                problem = Some(format!("the upgraded service said {:?} right behind its reply, the client received {:?}", hello, lossy(&rest)));
            }
        }
        if problem.is_none() && service_ends && upgrade_reached {
            let bye = format!("BYE-{}\n", up_tok.clone().unwrap_or_default());
            if !String::from_utf8_lossy(&rest).contains(&bye) {
                problem = Some(format!("the upgraded service said {:?} before hanging up, the client received {:?}", bye, lossy(&rest)));
            } else if stayed {
                problem = Some("the upgraded service hung up, but the bridge went on until the client closed its side too".into());
            }
        }
        if problem.is_none() {
            match status {
                None => problem = Some("the bridge did not stop within 6 s after the client closed its side".into()),
                Some(s) => {
                    let ok = s.success();
                    if (want_exit == "ok") != ok {
                        problem = Some(format!("bridge exit status {:?} (stderr {:?}), expected {}", s, stderr.chars().take(300).collect::<String>(), if want_exit == "ok" { "success" } else { "failure" }));
                    }
                }
            }
        }
        if let Some(p) = problem {
            fail(format!("{} -- stderr: {:?}", p, stderr.chars().take(200).collect::<String>()));
        }
    }
    let _ = env.resolver;
    let _ = std::fs::remove_dir_all(&env.dir);
    emit(&json!({"summary": true, "cases": cases.len(), "executions": execs, "failures": nfail}));
}
