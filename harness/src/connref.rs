//! `vh connref` — replay ConnRef cases (request sequence + Expected) through the in-memory
//! handler and through real sockets served by `varlink::listen`.
use std::sync::atomic::{AtomicUsize, Ordering};
use std::sync::{Arc, Mutex};

use serde_json::{json, Value};

use crate::conn::*;
use crate::svc::{self, SharedLog};
use crate::util::*;

pub fn sig_of(reqs: &Value) -> String {
    reqs.as_array()
        .unwrap()
        .iter()
        .map(|r| {
            let mut s = r["k"].as_str().unwrap().to_string();
            if r["k"] == "Script" {
                let sc: Vec<&str> = r["script"].as_array().unwrap().iter().map(|x| x.as_str().unwrap()).collect();
                s.push_str(&format!("[{}]", sc.join(" ")));
            }
            if r["more"].as_bool().unwrap_or(false) {
                s.push_str("+more");
            }
            if r["oneway"].as_bool().unwrap_or(false) {
                s.push_str("+oneway");
            }
            if r["upgrade"].as_bool().unwrap_or(false) {
                s.push_str("+upgrade");
            }
            s
        })
        .collect::<Vec<_>>()
        .join(",")
}

pub struct Failure {
    pub case: usize,
    pub variant: String,
    pub detail: String,
}

pub fn stream_of(creqs: &[CReq]) -> Vec<u8> {
    let mut v = Vec::new();
    for c in creqs {
        v.extend_from_slice(&c.wire());
    }
    v
}

/// bytes that follow the NUL of request `at` (1-based)
fn after_request(creqs: &[CReq], at: usize) -> Vec<u8> {
    stream_of(&creqs[at..])
}

pub fn check_common(exp: &Expect, obs: &Obs, log: &SharedLog, mem: bool, variant: &str) -> Result<(), String> {
    if obs.end == "panic" {
        return Err("the service panicked".into());
    }
    if obs.end == "hang" {
        // find out what is missing for the message
        let r = check_replies(exp, &obs.out, false);
        return Err(format!(
            "connection stays open but a request is never answered (waited {:?}); {}",
            HANG_TIMEOUT,
            r.err().unwrap_or_default()
        ));
    }
    check_replies(exp, &obs.out, false)?;
    let want_end = exp.end;
    let got_end = match (obs.end.as_str(), mem) {
        ("eof", false) => want_end, // socket run without sentinel (upgraded expected): EOF is all we see
        (e, _) => e,
    };
    if got_end != want_end {
        return Err(format!("connection state after the sequence: expected {}, observed {} {}", want_end, got_end, obs.note));
    }
    check_script_results(exp, log)?;
    if want_end == "upgraded" {
        let n = exp.creqs.len();
        let _ = n;
        let want = after_request(exp.creqs, exp.at);
        if obs.up_rx != want {
            return Err(format!(
                "[{}] upgraded handler received {} bytes, expected the {} bytes following the upgrade request: got {:?} want {:?}",
                variant, obs.up_rx.len(), want.len(), lossy(&obs.up_rx), lossy(&want)
            ));
        }
    }
    if mem && want_end == "open" && !obs.tail.is_empty() {
        return Err(format!("returned tail should be empty after complete messages, got {:?}", lossy(&obs.tail)));
    }
    Ok(())
}

pub fn run(args: &[String]) {
    let modes: Vec<String> = args
        .iter()
        .find_map(|a| a.strip_prefix("--modes=").map(|s| s.split(',').map(String::from).collect()))
        .unwrap_or_else(|| vec!["mem".into(), "sock".into()]);
    let threads: usize = args.iter().find_map(|a| a.strip_prefix("--threads=").and_then(|s| s.parse().ok())).unwrap_or(8);
    let cases = Arc::new(read_cases());
    let failures: Arc<Mutex<Vec<Failure>>> = Default::default();
    let execs = Arc::new(AtomicUsize::new(0));

    let dir = tmpdir("connref");
    let sock_addr = format!("unix:{}/s", dir.display());
    let mut server = if modes.iter().any(|m| m == "sock") { Some(Server::start(&sock_addr, threads + 2, threads + 8)) } else { None };
    let tcp_port = free_port(false);
    let tcp_addr = format!("tcp:127.0.0.1:{}", tcp_port);
    let mut tcp_server = if modes.iter().any(|m| m == "tcp") { Some(Server::start(&tcp_addr, threads + 2, threads + 8)) } else { None };

    let next = Arc::new(AtomicUsize::new(0));
    let mut hs = Vec::new();
    for _ in 0..threads {
        let cases = cases.clone();
        let failures = failures.clone();
        let next = next.clone();
        let execs = execs.clone();
        let modes = modes.clone();
        let sock_addr = sock_addr.clone();
        let tcp_addr = tcp_addr.clone();
        let slog = server.as_ref().map(|s| s.log.clone());
        let tlog = tcp_server.as_ref().map(|s| s.log.clone());
        hs.push(std::thread::spawn(move || {
            let mlog: SharedLog = Default::default();
            let service = svc::standard_service(mlog.clone());
            loop {
                let idx = next.fetch_add(1, Ordering::SeqCst);
                if idx >= cases.len() || failures.lock().unwrap().len() > 40 {
                    break; // enough evidence; every further hang would only cost its timeout
                }
                let case = &cases[idx];
                let reqs = case["reqs"].as_array().unwrap();
                let end = case["end"].as_str().unwrap();
                let at = case["at"].as_u64().unwrap() as usize;
                let mut variants: Vec<(&str, &str)> = Vec::new();
                for m in &modes {
                    match m.as_str() {
                        "mem" => {
                            variants.push(("mem", "whole"));
                            if reqs.len() > 1 {
                                variants.push(("mem", "permsg"));
                            }
                        }
                        "sock" => {
                            variants.push(("sock", "whole"));
                            if reqs.len() > 1 {
                                variants.push(("sock", "permsg"));
                            }
                        }
                        "tcp" => variants.push(("tcp", "whole")),
                        _ => {}
                    }
                }
                for (mode, seg) in variants {
                    let salt = format!("c{}{}{}", idx, &mode[..1], &seg[..1]);
                    let mut creqs: Vec<CReq> =
                        reqs.iter().enumerate().map(|(i, r)| concretise(r, i + 1, &salt, 0)).collect();
                    let whole = stream_of(&creqs);
                    let chunks: Vec<Vec<u8>> = if seg == "whole" {
                        vec![whole.clone()]
                    } else {
                        creqs.iter().map(|c| c.wire()).collect()
                    };
                    let up_tok = if end == "upgraded" { Some(creqs[at - 1].tok.clone()) } else { None };
                    let mut out_items = case["out"].clone();
                    let mut results = case["results"].clone();
                    execs.fetch_add(1, Ordering::Relaxed);
                    let res = if mode == "mem" {
                        let obs = run_mem(&service, &mlog, &chunks, up_tok.as_deref());
                        let exp = Expect { creqs: &creqs, out: &out_items, end, at, results: &results };
                        let r = check_common(&exp, &obs, &mlog, true, seg);
                        mlog.lock().unwrap().script.clear();
                        mlog.lock().unwrap().up_rx.clear();
                        mlog.lock().unwrap().up_calls.clear();
                        r
                    } else {
                        let (addr, log) = if mode == "sock" { (&sock_addr, slog.as_ref().unwrap()) } else { (&tcp_addr, tlog.as_ref().unwrap()) };
                        let stok = format!("SENTINEL{}", salt);
                        let sentinel_bytes = {
                            let mut b = serde_json::to_vec(&json!({"method": "org.example.gen.Ping", "parameters": {"ping": stok}})).unwrap();
                            b.push(0);
                            b
                        };
                        let use_sentinel = end != "upgraded";
                        let obs = run_socket(addr, log, &chunks, if use_sentinel { Some(&sentinel_bytes) } else { None }, &stok, up_tok.as_deref());
                        if use_sentinel && end == "open" {
                            // the sentinel is one more request at the end of the sequence
                            creqs.push(CReq { kind: "GenOk".into(), tok: stok.clone(), bytes: sentinel_bytes[..sentinel_bytes.len() - 1].to_vec(), method: "org.example.gen.Ping".into(), more: false, oneway: false, script: vec![], raw_full: None });
                            out_items.as_array_mut().unwrap().push(json!({"req": creqs.len(), "cont": false, "err": "", "arg": "pong"}));
                            results.as_array_mut().unwrap().push(json!([]));
                        }
                        let exp = Expect { creqs: &creqs, out: &out_items, end, at, results: &results };
                        let mut r = check_common(&exp, &obs, log, false, seg);
                        if mode == "tcp" && r.is_err() && end == "closed" {
                            // TCP teardown with unread input may reset and lose in-flight replies (kernel, not
                            // varlink): a faulty connection may end with any prefix of the expected replies.
                            if check_replies(&exp, &obs.out, true).is_ok() && obs.end != "hang" && obs.end != "open" {
                                r = Ok(());
                            }
                        }
                        // keep the shared log small
                        {
                            let mut l = log.lock().unwrap();
                            for c in creqs.iter() {
                                l.script.remove(&c.tok);
                                l.up_rx.remove(&c.tok);
                                l.up_calls.remove(&c.tok);
                            }
                        }
                        r
                    };
                    if let Err(d) = res {
                        failures.lock().unwrap().push(Failure { case: idx, variant: format!("{}-{}", mode, seg), detail: d });
                    }
                }
            }
        }));
    }
    for h in hs {
        let _ = h.join();
    }
    if let Some(s) = server.as_mut() {
        s.stop();
    }
    if let Some(s) = tcp_server.as_mut() {
        s.stop();
    }
    let _ = std::fs::remove_dir_all(&dir);
    let fs = failures.lock().unwrap();
    for f in fs.iter() {
        emit(&json!({"fail": true, "case": f.case, "variant": f.variant, "detail": f.detail,
                     "sig": sig_of(&cases[f.case]["reqs"]), "input": cases[f.case]}));
    }
    emit(&json!({"summary": true, "cases": cases.len(), "executions": execs.load(Ordering::Relaxed), "failures": fs.len()}));
}
