//! `vh malformed` — C06: systematic corruption of valid requests inside spec-enumerated sequences.
//!
//! Contexts come from TLC (MC_ConnRef, alphabet "malformed"): request sequences with a malformed symbol
//! at some position j, and Expected() for them.  The bytes of that symbol are replaced by mutants of valid
//! corpus requests (every truncation, per-position flip/delete/duplicate/insert, JSON value retyping, deep
//! nesting, empty, oversized, random bytes).  Each mutant is classified by the independent recogniser
//! bin/classify.py (Python json, RFC 8259 — not the crate under test):
//!   first piece certainly malformed  => strict: output must be exactly the spec's Expected (replies to the
//!                                       requests before it, nothing for it, connection closed);
//!   otherwise (still well-formed / uncertain) => relaxed: no panic, no hang, the replies to the preceding
//!                                       requests are exact, everything written is NUL-terminated JSON.
use std::io::{BufRead, BufReader, Write};
use std::process::{Command, Stdio};
use std::sync::atomic::{AtomicUsize, Ordering};
use std::sync::{Arc, Mutex};

use serde_json::{json, Value};

use crate::conn::*;
use crate::connref::{check_common, sig_of, stream_of, Failure};
use crate::svc::{self, SharedLog};
use crate::util::*;

fn hex(b: &[u8]) -> String {
    let mut s = String::with_capacity(b.len() * 2);
    for x in b {
        s.push_str(&format!("{:02x}", x));
    }
    s
}

struct Classifier {
    child: std::process::Child,
    stdin: std::process::ChildStdin,
    stdout: BufReader<std::process::ChildStdout>,
}
impl Classifier {
    fn new() -> Classifier {
        let script = std::env::var("VERIF_CLASSIFY").unwrap_or_else(|_| "/verif/bin/classify.py".into());
        let mut child = Command::new("python3").arg(script).stdin(Stdio::piped()).stdout(Stdio::piped()).spawn().expect("classifier");
        let stdin = child.stdin.take().unwrap();
        let stdout = BufReader::new(child.stdout.take().unwrap());
        Classifier { child, stdin, stdout }
    }
    fn classify(&mut self, tail: &[u8]) -> Vec<String> {
        writeln!(self.stdin, "{}", hex(tail)).unwrap();
        self.stdin.flush().unwrap();
        let mut line = String::new();
        self.stdout.read_line(&mut line).unwrap();
        line.split_whitespace().map(String::from).collect()
    }
}
impl Drop for Classifier {
    fn drop(&mut self) {
        let _ = self.child.kill();
        let _ = self.child.wait();
    }
}

fn retype_all(v: &Value, out: &mut Vec<Value>, root: &Value, path: &mut Vec<String>) {
    // replace the value at `path` by every other JSON type
    let alts = [Value::Null, json!(true), json!(5), json!(1.5), json!("s"), json!([]), json!({}), json!([1]), json!({"a": 1})];
    for a in alts.iter() {
        if std::mem::discriminant(a) != std::mem::discriminant(v) || a.is_array() || a.is_object() {
            let mut r = root.clone();
            {
                let mut cur = &mut r;
                for p in path.iter() {
                    cur = if let Ok(i) = p.parse::<usize>() { if cur.is_array() { &mut cur[i] } else { &mut cur[p.as_str()] } } else { &mut cur[p.as_str()] };
                }
                *cur = a.clone();
            }
            out.push(r);
        }
    }
    // and remove the member
    if let Some(last) = path.last() {
        let mut r = root.clone();
        {
            let mut cur = &mut r;
            for p in &path[..path.len() - 1] {
                cur = if cur.is_array() { &mut cur[p.parse::<usize>().unwrap()] } else { &mut cur[p.as_str()] };
            }
            if let Some(o) = cur.as_object_mut() {
                o.remove(last);
                out.push(r.clone());
            }
        }
    }
    match v {
        Value::Object(o) => {
            for (k, x) in o {
                path.push(k.clone());
                retype_all(x, out, root, path);
                path.pop();
            }
        }
        Value::Array(a) => {
            for (i, x) in a.iter().enumerate() {
                path.push(i.to_string());
                retype_all(x, out, root, path);
                path.pop();
            }
        }
        _ => {}
    }
}

/// all mutants of one valid message (bytes without NUL); each mutant is the replacement for bytes+NUL
fn mutants(msg: &[u8], thorough: bool, rng: &mut Rng) -> Vec<(String, Vec<u8>)> {
    let mut v: Vec<(String, Vec<u8>)> = Vec::new();
    let mut full = msg.to_vec();
    full.push(0);
    let n = full.len();
    let stride = if thorough { 1 } else { 2 };
    let off = rng.below(stride);
    for k in 0..n {
        v.push((format!("truncate@{}", k), full[..k].to_vec()));
    }
    let mut k = off;
    while k < n {
        for (nm, x) in [("flip01", 0x01u8), ("flip80", 0x80), ("flip20", 0x20)] {
            let mut m = full.clone();
            m[k] ^= x;
            v.push((format!("{}@{}", nm, k), m));
        }
        let mut m = full.clone();
        m.remove(k);
        v.push((format!("delete@{}", k), m));
        let mut m = full.clone();
        m.insert(k, full[k]);
        v.push((format!("duplicate@{}", k), m));
        for (nm, b) in [("insNUL", 0u8), ("insFF", 0xff), ("insQuote", b'"'), ("insBackslash", b'\\'), ("insC3", 0xc3), ("insBrace", b'{'), ("insComma", b',')] {
            let mut m = full.clone();
            m.insert(k, b);
            v.push((format!("{}@{}", nm, k), m));
        }
        k += stride;
    }
    if let Ok(val) = serde_json::from_slice::<Value>(msg) {
        let mut outs = Vec::new();
        retype_all(&val, &mut outs, &val, &mut Vec::new());
        for (i, o) in outs.into_iter().enumerate() {
            let mut b = serde_json::to_vec(&o).unwrap();
            b.push(0);
            v.push((format!("retype#{}", i), b));
        }
        // deep nesting of a parameter value
        for depth in [1usize, 2, 10, 100, 126, 127, 128, 129, 200, 1000, 10000] {
            for (open, close) in [("[", "]"), ("{\"a\":", "}")] {
                let nested = format!("{}1{}", open.repeat(depth), close.repeat(depth));
                let mut s = String::from_utf8_lossy(msg).to_string();
                // put it as an extra member of the request's parameters (or as parameters)
                if let Some(p) = s.find("\"parameters\":{") {
                    s.insert_str(p + "\"parameters\":{".len(), &format!("\"deep\":{},", nested));
                } else if s.ends_with('}') {
                    s.pop();
                    s.push_str(&format!(",\"parameters\":{{\"deep\":{}}}}}", nested));
                }
                let mut b = s.into_bytes();
                b.push(0);
                v.push((format!("nest{}{}", open.chars().next().unwrap(), depth), b));
            }
        }
        // oversized but valid
        let mut big = val.clone();
        big["parameters"]["padding"] = json!("x".repeat(1 << 20));
        let mut b = serde_json::to_vec(&big).unwrap();
        b.push(0);
        v.push(("oversized-valid-1MiB".into(), b));
    }
    v.push(("empty".into(), vec![0]));
    v.push(("only-spaces".into(), b"   \0".to_vec()));
    let mut garbage = vec![b'{'; 1 << 20];
    garbage.push(0);
    v.push(("oversized-garbage-1MiB".into(), garbage));
    for i in 0..(if thorough { 400 } else { 40 }) {
        let len = rng.below(200);
        let mut b: Vec<u8> = (0..len).map(|_| (rng.next() & 0xff) as u8).collect();
        if rng.chance(3, 4) {
            b.push(0);
        }
        v.push((format!("random#{}", i), b));
    }
    v
}

pub fn run(args: &[String]) {
    let thorough = args.iter().any(|a| a == "--tier=thorough");
    let threads: usize = 8;
    let contexts = read_cases();
    // contexts with a malformed symbol; j = first such position (1-based)
    let malformed_kinds = ["BadJson", "BadUtf8", "WrongMemberType", "EmptyMsg", "NotObject", "NoMethod"];
    let ctx: Vec<(usize, usize)> = contexts
        .iter()
        .enumerate()
        .filter_map(|(i, c)| {
            c["reqs"].as_array().unwrap().iter().position(|r| malformed_kinds.contains(&r["k"].as_str().unwrap())).map(|j| (i, j + 1))
        })
        .collect();
    if ctx.is_empty() {
        eprintln!("vh malformed: no context with a malformed symbol");
        std::process::exit(2);
    }
    // corpus of valid requests
    let corpus_abs = vec![
        json!({"k": "GenOk", "more": false, "oneway": false, "upgrade": false, "script": []}),
        json!({"k": "GetInfo", "more": false, "oneway": false, "upgrade": false, "script": []}),
        json!({"k": "DescrKnown", "more": false, "oneway": false, "upgrade": false, "script": []}),
        json!({"k": "UnknownIface", "more": false, "oneway": false, "upgrade": false, "script": []}),
        json!({"k": "GenStream2", "more": true, "oneway": false, "upgrade": false, "script": []}),
        json!({"k": "Script", "more": true, "oneway": false, "upgrade": false, "script": ["c1", "r", "c0", "r"]}),
        json!({"k": "GenOk", "more": false, "oneway": true, "upgrade": false, "script": []}),
        json!({"k": "GenFail", "more": false, "oneway": false, "upgrade": true, "script": []}),
    ];
    let mut rng = Rng::new(seed() * 31 + 7);
    let mut work: Vec<(String, Vec<u8>)> = Vec::new();
    for (ci, a) in corpus_abs.iter().enumerate() {
        let c = concretise(a, 9, &format!("corp{}", ci), 0);
        for (name, m) in mutants(&c.bytes, thorough, &mut rng) {
            work.push((format!("{}:{}", c.kind, name), m));
        }
    }
    let work = Arc::new(work);
    let contexts = Arc::new(contexts);
    let ctx = Arc::new(ctx);
    let failures: Arc<Mutex<Vec<(Failure, String, Value)>>> = Default::default();
    let execs = Arc::new(AtomicUsize::new(0));
    let strict_n = Arc::new(AtomicUsize::new(0));
    let relaxed_n = Arc::new(AtomicUsize::new(0));
    let dir = tmpdir("malformed");
    let sock_addr = format!("unix:{}/s", dir.display());
    let mut server = Server::start(&sock_addr, threads + 2, threads + 8);
    let slog = server.log.clone();
    let next = Arc::new(AtomicUsize::new(0));
    let mut hs = Vec::new();
    for _ in 0..threads {
        let (work, contexts, ctx, failures, execs, next, strict_n, relaxed_n) = (work.clone(), contexts.clone(), ctx.clone(), failures.clone(), execs.clone(), next.clone(), strict_n.clone(), relaxed_n.clone());
        let sock_addr = sock_addr.clone();
        let slog = slog.clone();
        hs.push(std::thread::spawn(move || {
            let mut cl = Classifier::new();
            let mlog: SharedLog = Default::default();
            let service = svc::standard_service(mlog.clone());
            loop {
                let w = next.fetch_add(1, Ordering::SeqCst);
                if w >= work.len() || failures.lock().unwrap().len() > 25 {
                    break; // enough evidence; every further hang would only cost its timeout
                }
                let (ref mname, ref mbytes) = work[w];
                let (ci, j) = ctx[w % ctx.len()];
                let case = &contexts[ci];
                let reqs = case["reqs"].as_array().unwrap();
                let big = mbytes.len() > 100_000;
                for mode in ["mem", "sock"] {
                    // (deeply nested values always go through the real server too: its workers run on their own stacks)
                    if mode == "sock" && !thorough && w % 4 != 0 && !big && !mname.contains(":nest") {
                        continue;
                    }
                    let salt = format!("w{}{}", w, &mode[..1]);
                    let mut creqs: Vec<CReq> = reqs.iter().enumerate().map(|(i, r)| concretise(r, i + 1, &salt, 0)).collect();
                    creqs[j - 1].raw_full = Some(mbytes.clone());
                    let tail = stream_of(&creqs[j - 1..]);
                    let classes = cl.classify(&tail);
                    let strict = classes.first().map(|c| c == "M").unwrap_or(false);
                    let stream = stream_of(&creqs);
                    execs.fetch_add(1, Ordering::Relaxed);
                    let res: Result<(), String> = if strict {
                        strict_n.fetch_add(1, Ordering::Relaxed);
                        let exp = Expect { creqs: &creqs, out: &case["out"], end: case["end"].as_str().unwrap(), at: case["at"].as_u64().unwrap() as usize, results: &case["results"] };
                        if mode == "mem" {
                            let obs = run_mem(&service, &mlog, &[stream.clone()], None);
                            check_common(&exp, &obs, &mlog, true, "whole")
                        } else {
                            let stok = format!("SENTINEL{}", salt);
                            let mut sb = serde_json::to_vec(&json!({"method": "org.example.gen.Ping", "parameters": {"ping": stok}})).unwrap();
                            sb.push(0);
                            let obs = run_socket(&sock_addr, &slog, &[stream.clone()], Some(&sb), &stok, None);
                            check_common(&exp, &obs, &slog, false, "whole")
                        }
                    } else {
                        relaxed_n.fetch_add(1, Ordering::Relaxed);
                        // replies to the requests before position j are exact; the rest only has to be sane
                        let pre_items: Vec<Value> = case["out"].as_array().unwrap().iter().filter(|it| (it["req"].as_u64().unwrap() as usize) < j).cloned().collect();
                        let pre = json!(pre_items);
                        let closed_before = case["end"] != "open" && (case["at"].as_u64().unwrap() as usize) < j;
                        let exp = Expect { creqs: &creqs, out: &pre, end: "open", at: 0, results: &case["results"] };
                        let obs = if mode == "mem" {
                            run_mem(&service, &mlog, &[stream.clone()], None)
                        } else {
                            let stok = format!("SENTINEL{}", salt);
                            let mut sb = serde_json::to_vec(&json!({"method": "org.example.gen.Ping", "parameters": {"ping": stok}})).unwrap();
                            sb.push(0);
                            run_socket(&sock_addr, &slog, &[stream.clone()], Some(&sb), &stok, None)
                        };
                        (|| {
                            if obs.end == "panic" {
                                return Err("the service panicked".to_string());
                            }
                            if obs.end == "hang" && !String::from_utf8_lossy(&obs.out).contains("\"tok\"") {
                                // whatever the mutant decodes to, the connection is either served or closed
                                return Err(format!("connection neither answered nor closed within {:?} (replies so far: {:?})", HANG_TIMEOUT, lossy(&obs.out)));
                            }
                            // upgraded connections (mutant turned into an Up call) have no sentinel reply and stay open until we close: fine
                            let (msgs, rest) = split_nul(&obs.out);
                            if !rest.is_empty() {
                                return Err(format!("output ends with an unterminated message {:?}", lossy(&rest)));
                            }
                            for m in &msgs {
                                if serde_json::from_slice::<Value>(m).is_err() {
                                    return Err(format!("output contains a non-JSON message {:?}", lossy(m)));
                                }
                            }
                            if msgs.len() < pre_items.len() {
                                return Err(format!("only {} replies, the {} requests before the mutant require {}", msgs.len(), j - 1, pre_items.len()));
                            }
                            let mut head = Vec::new();
                            for m in &msgs[..pre_items.len()] {
                                head.extend_from_slice(m);
                                head.push(0);
                            }
                            check_replies(&exp, &head, false)?;
                            if closed_before && msgs.len() != pre_items.len() {
                                return Err("replies after the connection should have been closed".into());
                            }
                            Ok(())
                        })()
                    };
                    {
                        let mut l = mlog.lock().unwrap();
                        l.script.clear();
                        l.up_rx.clear();
                        l.up_calls.clear();
                    }
                    if let Err(d) = res {
                        failures.lock().unwrap().push((
                            Failure { case: ci, variant: format!("{}-{}-{}", mode, if strict { "strict" } else { "relaxed" }, mname), detail: d },
                            hex(if mbytes.len() > 4096 { &mbytes[..4096] } else { mbytes }),
                            json!({"classes": classes, "position": j}),
                        ));
                    }
                }
            }
        }));
    }
    for h in hs {
        let _ = h.join();
    }
    // the healthy neighbour: after all that abuse the same server still serves a fresh connection correctly
    {
        let healthy = json!({"k": "GenOk", "more": false, "oneway": false, "upgrade": false, "script": []});
        let c = concretise(&healthy, 1, "after", 0);
        let obs = run_socket(&sock_addr, &slog, &[c.wire()], None, "", None);
        // the reply echoes the value the request carried (the token inside a string with blanks)
        let sent: Value = serde_json::from_slice(&c.bytes).unwrap_or(Value::Null);
        let want = json!({"parameters": {"pong": sent["parameters"]["ping"]}});
        let (msgs, _) = split_nul(&obs.out);
        if msgs.len() != 1 || serde_json::from_slice::<Value>(&msgs[0]).ok() != Some(want) {
            failures.lock().unwrap().push((Failure { case: 0, variant: "later-connection".into(), detail: format!("a later healthy connection got {:?}", lossy(&obs.out)) }, String::new(), json!({})));
        }
    }
    // "the service never panics": a panic inside the library's own code, also one that a worker thread survives, was counted by the hook
    {
        let (n, first) = lib_panics();
        if n > 0 {
            failures.lock().unwrap().push((Failure { case: 0, variant: "library-panic".into(),
                detail: format!("the service's own code panicked {} time(s) while handling hostile input (first: {})", n, first.chars().take(300).collect::<String>()) }, String::new(), json!({})));
        }
    }
    server.stop();
    let _ = std::fs::remove_dir_all(&dir);
    let fs = failures.lock().unwrap();
    for (f, hx, extra) in fs.iter() {
        emit(&json!({"fail": true, "case": f.case, "variant": f.variant, "detail": f.detail,
                     "sig": format!("{} @ {}", f.variant, sig_of(&contexts[f.case]["reqs"])), "input": contexts[f.case],
                     "mutant_hex": hx, "classification": extra}));
    }
    emit(&json!({"summary": true, "cases": work.len(), "executions": execs.load(Ordering::Relaxed), "failures": fs.len(),
                 "strict": strict_n.load(Ordering::Relaxed), "relaxed": relaxed_n.load(Ordering::Relaxed), "contexts": ctx.len()}));
}
