//! `vh poolobs` — C14 observed from outside, through the public API only: `varlink::listen` with a
//! ConnectionHandler of our own whose invocations are long-lived (a connection is "in service" from the
//! moment the handler is entered until the client closes).  The handler itself counts concurrency.
//!   Bounded:      never more than max_worker_threads handlers active at once
//!   NoStranding:  with N connections open, min(N, max) handlers become active without any connection
//!                 finishing and without a further connection arriving
use std::io::{BufRead, Read, Write};
use std::os::unix::net::UnixStream;
use std::sync::atomic::{AtomicBool, AtomicUsize, Ordering};
use std::sync::{Arc, Mutex};
use std::time::{Duration, Instant};

use serde_json::json;
use varlink::{ConnectionHandler, ListenConfig};

use crate::util::*;

#[derive(Default)]
pub struct Obs {
    pub active: AtomicUsize,
    pub max_active: AtomicUsize,
    pub started: Mutex<Vec<u8>>,
    pub finished: Mutex<Vec<u8>>,
}

pub struct GateHandler {
    pub obs: Arc<Obs>,
}

impl ConnectionHandler for GateHandler {
    fn handle(&self, bufreader: &mut dyn BufRead, _writer: &mut dyn Write, _up: Option<String>) -> varlink::Result<(Vec<u8>, Option<String>)> {
        // first byte = connection id; then the connection lives until the client closes
        let mut id = [0u8; 1];
        match bufreader.read(&mut id) {
            Ok(1) => {}
            _ => return Ok((Vec::new(), None)), // probe connection (no id): not a job of the scenario
        }
        if id[0] >= 200 {
            // a fault of the service's own code: this connection's handler ends by panicking (Pool.tla: EnvCrash)
            panic!("verif: connection handler {} panics", id[0]);
        }
        let a = self.obs.active.fetch_add(1, Ordering::SeqCst) + 1;
        self.obs.max_active.fetch_max(a, Ordering::SeqCst);
        self.obs.started.lock().unwrap().push(id[0]);
        let mut sink = [0u8; 64];
        loop {
            match bufreader.read(&mut sink) {
                Ok(0) | Err(_) => break,
                Ok(_) => {}
            }
        }
        self.obs.finished.lock().unwrap().push(id[0]);
        self.obs.active.fetch_sub(1, Ordering::SeqCst);
        Ok((Vec::new(), None))
    }
}

fn wait_until<F: Fn() -> bool>(f: F, max: Duration) -> bool {
    let t0 = Instant::now();
    while t0.elapsed() < max {
        if f() {
            return true;
        }
        std::thread::sleep(Duration::from_millis(2));
    }
    f()
}

pub fn scenario(initial: usize, max: usize, n: usize, gap_us: u64, idx: usize) -> Result<serde_json::Value, String> {
    let dir = tmpdir(&format!("poolobs{}", idx));
    let path = dir.join("s");
    let addr = format!("unix:{}", path.display());
    let obs: Arc<Obs> = Default::default();
    let stop = Arc::new(AtomicBool::new(false));
    let cfg = ListenConfig { initial_worker_threads: initial, max_worker_threads: max, idle_timeout: 0, stop_listening: Some(stop.clone()) };
    let h = GateHandler { obs: obs.clone() };
    let a2 = addr.clone();
    let th = std::thread::spawn(move || varlink::listen(h, &a2, &cfg));
    if !wait_listening(&addr, Duration::from_secs(5)) {
        return Err("listen() did not start listening on its socket within 5 s".into());
    }
    let settle = Duration::from_secs(3);
    let mut conns: Vec<Option<UnixStream>> = Vec::new();
    let mut result: Result<(), String> = Ok(());
    for j in 0..n {
        match UnixStream::connect(&path) {
            Ok(mut s) => {
                let _ = s.write_all(&[j as u8 + 1]);
                conns.push(Some(s));
            }
            Err(e) => {
                result = Err(format!("connect {} failed: {}", j, e));
                break;
            }
        }
        if gap_us > 0 {
            std::thread::sleep(Duration::from_micros(gap_us));
        }
    }
    let want = n.min(max);
    if result.is_ok() {
        // no connection finishes, no further connection arrives: min(n, max) must get into service
        let ok = wait_until(|| obs.active.load(Ordering::SeqCst) >= want, settle);
        let act = obs.active.load(Ordering::SeqCst);
        if !ok {
            result = Err(format!("stranded: {} connections open, max {}, only {} in service after {:?} (initial {}, connect gap {}us); in service: {:?}",
                n, max, act, settle, initial, gap_us, obs.started.lock().unwrap()));
        }
    }
    if result.is_ok() {
        // give a wrong implementation the chance to over-subscribe
        std::thread::sleep(Duration::from_millis(if n > max { 150 } else { 20 }));
        let m = obs.max_active.load(Ordering::SeqCst);
        if m > max {
            result = Err(format!("bound exceeded: {} connections in service at once, max_worker_threads = {} (initial {}, {} connections)", m, max, initial, n));
        }
    }
    if result.is_ok() && n > max {
        // finishing one connection lets a queued one in; still never more than max
        let victim = obs.started.lock().unwrap()[0] as usize - 1;
        conns[victim] = None;
        let ok = wait_until(|| obs.started.lock().unwrap().len() >= max + 1 && obs.active.load(Ordering::SeqCst) >= max, settle);
        if !ok {
            result = Err(format!("after one connection finished no queued connection was taken into service ({} started, {} active, max {})",
                obs.started.lock().unwrap().len(), obs.active.load(Ordering::SeqCst), max));
        }
        let m = obs.max_active.load(Ordering::SeqCst);
        if result.is_ok() && m > max {
            result = Err(format!("bound exceeded: {} in service at once, max {}", m, max));
        }
    }
    // drain
    conns.clear();
    stop.store(true, Ordering::SeqCst);
    let joined = wait_until(|| th.is_finished(), Duration::from_secs(10));
    if joined {
        let _ = th.join();
        if result.is_ok() && obs.finished.lock().unwrap().len() != n {
            result = Err(format!("listen() returned but only {} of {} connections were served to completion", obs.finished.lock().unwrap().len(), n));
        }
    } else if result.is_ok() {
        result = Err("listen() did not return within 10 s after the stop flag was set and all clients closed".into());
    }
    let _ = std::fs::remove_dir_all(&dir);
    result.map(|_| json!({"initial": initial, "max": max, "n": n, "gap_us": gap_us, "max_active": obs.max_active.load(Ordering::SeqCst)}))
}

/// `panics` connections whose handler panics (one after the other, each seen closed by its client), then `max` connections that
/// stay open: all of them must get into service although nothing else happens; afterwards listen() must drain and return.
pub fn crash_scenario(initial: usize, max: usize, panics: usize, idx: usize) -> Result<serde_json::Value, String> {
    // every other scenario ends through the idle timeout instead of the stop flag: the panicked connections are over, so they
    // must not keep the server "busy" for ever
    let by_timeout = idx % 2 == 1;
    let dir = tmpdir(&format!("poolcrash{}", idx));
    let path = dir.join("s");
    let addr = format!("unix:{}", path.display());
    let obs: Arc<Obs> = Default::default();
    let stop = Arc::new(AtomicBool::new(false));
    let cfg = ListenConfig { initial_worker_threads: initial, max_worker_threads: max, idle_timeout: if by_timeout { 2 } else { 0 },
                             stop_listening: if by_timeout { None } else { Some(stop.clone()) } };
    let h = GateHandler { obs: obs.clone() };
    let a2 = addr.clone();
    let th = std::thread::spawn(move || varlink::listen(h, &a2, &cfg));
    if !wait_listening(&addr, Duration::from_secs(5)) {
        return Err("listen() did not start listening on its socket within 5 s".into());
    }
    let settle = Duration::from_secs(3);
    let mut result: Result<(), String> = Ok(());
    for k in 0..panics {
        match UnixStream::connect(&path) {
            Ok(mut s) => {
                let _ = s.set_read_timeout(Some(Duration::from_secs(5)));
                let _ = s.write_all(&[200 + k as u8]);
                let mut b = [0u8; 8];
                match s.read(&mut b) {
                    Ok(0) => {}
                    Err(ref e) if e.kind() == std::io::ErrorKind::ConnectionReset => {}
                    other => {
                        result = Err(format!("panicking connection {} was neither served nor closed within 5 s ({:?}): no worker took it", k + 1, other));
                        break;
                    }
                }
            }
            Err(e) => {
                result = Err(format!("connect failed: {}", e));
                break;
            }
        }
    }
    // the unwinding threads get time to finish what they do on their way out
    std::thread::sleep(Duration::from_millis(30));
    let mut conns: Vec<UnixStream> = Vec::new();
    if result.is_ok() {
        for j in 0..max {
            match UnixStream::connect(&path) {
                Ok(mut s) => {
                    let _ = s.write_all(&[j as u8 + 1]);
                    conns.push(s);
                }
                Err(e) => {
                    result = Err(format!("connect failed: {}", e));
                    break;
                }
            }
        }
    }
    if result.is_ok() {
        let ok = wait_until(|| obs.active.load(Ordering::SeqCst) >= max, settle);
        if !ok {
            result = Err(format!("stranded after {} handler panic(s): {} connections open, max {}, nothing else in service, only {} in service after {:?} (initial {})",
                panics, max, max, obs.active.load(Ordering::SeqCst), settle, initial));
        }
    }
    if result.is_ok() && obs.max_active.load(Ordering::SeqCst) > max {
        result = Err(format!("bound exceeded after handler panics: {} in service at once, max {}", obs.max_active.load(Ordering::SeqCst), max));
    }
    conns.clear();
    stop.store(true, Ordering::SeqCst);
    let joined = wait_until(|| th.is_finished(), Duration::from_secs(10));
    if joined {
        match th.join() {
            Ok(Ok(())) if !by_timeout => {}
            Ok(Err(ref e)) if by_timeout && matches!(e.kind(), varlink::ErrorKind::Timeout) => {}
            Ok(Ok(())) => {
                if result.is_ok() {
                    result = Err("listen() without a stop flag returned Ok".into());
                }
            }
            Ok(Err(e)) => {
                if result.is_ok() {
                    result = Err(format!("listen() returned an error after {} ({} handler panics earlier): {}", if by_timeout { "the idle period" } else { "the stop flag was set" }, panics, e));
                }
            }
            Err(_) => {
                if result.is_ok() {
                    result = Err(format!("listen() itself panicked while shutting down its pool ({} handler panic(s) earlier)", panics));
                }
            }
        }
    } else if result.is_ok() {
        result = Err(format!("listen() did not return within 10 s after {} and all clients closed ({} handler panic(s) earlier)",
            if by_timeout { "its idle timeout of 2 s had passed" } else { "the stop flag was set" }, panics));
    }
    let _ = std::fs::remove_dir_all(&dir);
    result.map(|_| json!({"initial": initial, "max": max, "panics": panics}))
}

pub fn run(args: &[String]) {
    let thorough = args.iter().any(|a| a == "--tier=thorough");
    let reps = if thorough { 6 } else { 2 };
    let mut scen: Vec<(usize, usize, usize, u64)> = Vec::new();
    for (initial, max) in [(1usize, 1usize), (1, 2), (2, 3), (2, 4), (3, 4), (1, 4), (3, 3)] {
        for n in 1..=5usize {
            for gap in [0u64, 300, 5000] {
                for _ in 0..reps {
                    scen.push((initial, max, n, gap));
                }
            }
        }
    }
    // handler panics: (initial, max, number of panicking connections, marker)
    const CRASH: u64 = u64::MAX;
    for (initial, max) in [(1usize, 1usize), (1, 2), (2, 2), (1, 3), (2, 4)] {
        for panics in 1..=(if thorough { 4usize } else { 2 }) {
            scen.push((initial, max, panics, CRASH));
        }
    }
    let scen = Arc::new(scen);
    let next = Arc::new(AtomicUsize::new(0));
    let fails: Arc<Mutex<Vec<serde_json::Value>>> = Default::default();
    let oks = Arc::new(AtomicUsize::new(0));
    let mut hs = Vec::new();
    for _ in 0..6 {
        let (scen, next, fails, oks) = (scen.clone(), next.clone(), fails.clone(), oks.clone());
        hs.push(std::thread::spawn(move || loop {
            let i = next.fetch_add(1, Ordering::SeqCst);
            if i >= scen.len() || fails.lock().unwrap().len() > 12 {
                break; // enough evidence; a pool that never shuts down costs its full time-out per scenario
            }
            let (initial, max, n, gap) = scen[i];
            if gap == CRASH {
                match crash_scenario(initial, max, n, i) {
                    Ok(_) => {
                        oks.fetch_add(1, Ordering::SeqCst);
                    }
                    Err(d) => fails.lock().unwrap().push(json!({"fail": true, "case": i, "variant": format!("initial={} max={} handler-panics={}", initial, max, n),
                        "detail": d, "sig": format!("handler-panic initial={} max={} panics={}", initial, max, n), "input": {"initial": initial, "max": max, "panics": n}})),
                }
                continue;
            }
            match scenario(initial, max, n, gap, i) {
                Ok(_) => {
                    oks.fetch_add(1, Ordering::SeqCst);
                }
                Err(d) => fails.lock().unwrap().push(json!({"fail": true, "case": i, "variant": format!("initial={} max={} n={} gap={}us", initial, max, n, gap),
                    "detail": d, "sig": format!("initial={} max={} n={}", initial, max, n), "input": {"initial": initial, "max": max, "n": n, "gap_us": gap}})),
            }
        }));
    }
    for h in hs {
        let _ = h.join();
    }
    for f in fails.lock().unwrap().iter() {
        emit(f);
    }
    emit(&json!({"summary": true, "cases": scen.len(), "executions": scen.len(), "failures": fails.lock().unwrap().len()}));
}
