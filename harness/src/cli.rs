//! `vh cli` — C20: the real `varlink call` binary against a scripted service; stdout / stderr / exit status
//! compared with specs/Cli.tla's Observe() for TLC-enumerated reply streams x address forms x colour x values.
use std::io::{Read, Write};
use std::process::{Command, Stdio};
use std::sync::atomic::{AtomicBool, AtomicUsize, Ordering};
use std::sync::{Arc, Mutex};
use std::time::Duration;

use serde_json::{json, Value};

use crate::util::*;

fn value_pool() -> Vec<Value> {
    vec![
        json!({"a": 1}),
        json!({}),
        json!({"n": 9223372036854775807i64, "m": -9223372036854775808i64, "u": 18446744073709551615u64, "z": 0}),
        json!({"f": 0.5, "g": 1e308, "h": -2.5e-7, "i": 1.0}),
        json!({"s": "\u{e9}\n\"\\\t\u{1F600}\u{0001}", "e": "", "sl": "a/b/c", "k\"ey": "v"}),
        json!({"nested": {"arr": [1, [2, [3, {"x": null}]]], "o": {}, "ea": []}}),
        json!({"null": null, "t": true, "f": false}),
        json!({"long": "x".repeat(5000)}),
    ]
}

/// paced streams: reply k of the call carrying `token` is written only once the driver has granted k permits
static PACE: Mutex<Option<std::collections::HashMap<String, usize>>> = Mutex::new(None);
static PACE_CV: std::sync::Condvar = std::sync::Condvar::new();

fn pace_grant(token: &str, n: usize) {
    let mut g = PACE.lock().unwrap();
    g.get_or_insert_with(Default::default).insert(token.to_string(), n);
    PACE_CV.notify_all();
}

fn pace_wait(token: &str, n: usize) -> bool {
    let mut g = PACE.lock().unwrap();
    let t0 = std::time::Instant::now();
    loop {
        if g.as_ref().and_then(|m| m.get(token)).copied().unwrap_or(0) >= n {
            return true;
        }
        if t0.elapsed() > Duration::from_secs(30) {
            return false;
        }
        g = PACE_CV.wait_timeout(g, Duration::from_millis(200)).unwrap().0;
    }
}

fn serve_conn<S: Read + Write>(mut s: S) {
    let mut buf: Vec<u8> = Vec::new();
    let mut tmp = [0u8; 4096];
    loop {
        let n = match s.read(&mut tmp) {
            Ok(0) | Err(_) => return,
            Ok(n) => n,
        };
        buf.extend_from_slice(&tmp[..n]);
        while let Some(p) = buf.iter().position(|b| *b == 0) {
            let msg: Vec<u8> = buf.drain(..=p).collect();
            let req: Value = serde_json::from_slice(&msg[..msg.len() - 1]).unwrap_or(Value::Null);
            let replies = req["parameters"]["replies"].as_array().cloned().unwrap_or_default();
            if let Some(token) = req["parameters"]["pace"].as_str() {
                // one reply at a time, each when the driver says so; the connection stays open in between
                let n = replies.len();
                for (k, r) in replies.into_iter().enumerate() {
                    if !pace_wait(token, k + 1) {
                        return;
                    }
                    let mut out = serde_json::to_vec(&r).unwrap();
                    out.push(0);
                    let _ = s.write_all(&out);
                }
                pace_wait(token, n + 1);
                return;
            }
            let mut out = Vec::new();
            for r in replies {
                out.extend_from_slice(&serde_json::to_vec(&r).unwrap());
                out.push(0);
            }
            let _ = s.write_all(&out);
            if req["parameters"]["close"] == json!(true) {
                return; // dropping the stream closes the connection mid-stream
            }
        }
    }
}

fn strip_ansi(s: &str) -> String {
    let mut out = String::new();
    let mut it = s.chars().peekable();
    while let Some(c) = it.next() {
        if c == '\u{1b}' {
            if it.peek() == Some(&'[') {
                it.next();
                for d in it.by_ref() {
                    if d.is_ascii_alphabetic() {
                        break;
                    }
                }
            }
        } else {
            out.push(c);
        }
    }
    out
}

/// `varlink call --more` against a service that sends its replies one at a time and keeps the stream open in between: after the
/// k-th reply has been sent, the parameters of the successful replies among the first k must be on the tool's standard output
/// while the call is still in progress (a consumer of a monitor-style stream sees each reply when it arrives).
fn paced_stream(bin: &str, addr: &str, i: usize, script: &[Value], obs: &Value, pool: &[Value]) -> Option<String> {
    let token = format!("pace-{}-{}", std::process::id(), i);
    let mut replies: Vec<Value> = Vec::new();
    for (k, r) in script.iter().enumerate() {
        let mut v = json!({});
        match r["err"].as_str().unwrap() {
            "" => {
                if r["par"].as_bool().unwrap() {
                    v["parameters"] = pool[(i + k) % pool.len()].clone();
                }
            }
            "std" => {
                v["error"] = json!("org.varlink.service.InvalidParameter");
                v["parameters"] = json!({"parameter": format!("p{}", k)});
            }
            _ => {
                v["error"] = json!(format!("org.example.t.Custom{}", k));
            }
        }
        if r["cont"] == json!(true) {
            v["continues"] = json!(true);
        }
        replies.push(v);
    }
    let args = json!({"replies": replies, "pace": token});
    let mut cmd = Command::new(bin);
    cmd.arg("--color").arg("off").arg("call").arg("--more").arg(format!("{}/org.example.t.M", addr)).arg(args.to_string());
    cmd.stdin(Stdio::null()).stdout(Stdio::piped()).stderr(Stdio::null());
    let mut child = match cmd.spawn() {
        Ok(c) => c,
        Err(e) => return Some(format!("cannot run {}: {}", bin, e)),
    };
    let so = child.stdout.take().unwrap();
    let buf: Arc<Mutex<Vec<u8>>> = Default::default();
    let b2 = buf.clone();
    let rd = std::thread::spawn(move || {
        let mut so = so;
        let mut tmp = [0u8; 4096];
        loop {
            match so.read(&mut tmp) {
                Ok(0) | Err(_) => return,
                Ok(n) => b2.lock().unwrap().extend_from_slice(&tmp[..n]),
            }
        }
    });
    let printed = |buf: &Arc<Mutex<Vec<u8>>>| -> Vec<Value> {
        let b = buf.lock().unwrap().clone();
        let text = String::from_utf8_lossy(&b).to_string();
        serde_json::Deserializer::from_str(&text).into_iter::<Value>().take_while(|v| v.is_ok()).map(|v| v.unwrap()).collect()
    };
    let outs: Vec<usize> = obs["out"].as_array().unwrap().iter().map(|x| x.as_u64().unwrap() as usize).collect();
    let mut verdict = None;
    for k in 1..=replies.len() {
        pace_grant(&token, k);
        let want: Vec<Value> = outs.iter().filter(|ix| **ix <= k).map(|ix| replies[*ix - 1].get("parameters").cloned().unwrap_or(json!({}))).collect();
        let t0 = std::time::Instant::now();
        let mut got = printed(&buf);
        while got.len() < want.len() && t0.elapsed() < Duration::from_secs(6) {
            std::thread::sleep(Duration::from_millis(2));
            got = printed(&buf);
        }
        if got != want {
            verdict = Some(format!("reply {} of {} has been sent and the stream is still open: standard output holds {} value(s) {:?}, expected the parameters of the successful replies so far {:?}",
                k, replies.len(), got.len(), got, want));
            break;
        }
        if outs.iter().all(|ix| *ix <= k) && (replies[k - 1].get("error").is_some() || replies[k - 1].get("continues").is_none()) {
            break; // final reply or error: the call is over
        }
    }
    pace_grant(&token, replies.len() + 1);
    let t0 = std::time::Instant::now();
    loop {
        match child.try_wait() {
            Ok(Some(_)) | Err(_) => break,
            Ok(None) => {
                if t0.elapsed() > Duration::from_secs(10) {
                    let _ = child.kill();
                    let _ = child.wait();
                    if verdict.is_none() {
                        verdict = Some("varlink call --more did not terminate within 10 s after the service closed the stream".into());
                    }
                    break;
                }
                std::thread::sleep(Duration::from_millis(2));
            }
        }
    }
    let _ = rd.join();
    verdict
}

pub fn run(_args: &[String]) {
    let bin = std::env::var("VERIF_VARLINK_BIN").expect("VERIF_VARLINK_BIN");
    let cases: Arc<Vec<Value>> = Arc::new(read_cases().into_iter().filter(|c| c.get("script").is_some()).collect());
    let dir = tmpdir("cli");
    let deep = dir.join("a").join("b.c").join("d");
    std::fs::create_dir_all(&deep).unwrap();
    let upath = deep.join("sock");
    let stop = Arc::new(AtomicBool::new(false));
    // listeners: unix path (several slashes), abstract, tcp
    let ul = std::os::unix::net::UnixListener::bind(&upath).unwrap();
    let aname = format!("verif-cli-{}", std::process::id());
    let al = {
        use std::os::linux::net::SocketAddrExt;
        let a = std::os::unix::net::SocketAddr::from_abstract_name(&aname).unwrap();
        std::os::unix::net::UnixListener::bind_addr(&a).unwrap()
    };
    let tl = std::net::TcpListener::bind("127.0.0.1:0").unwrap();
    let tport = tl.local_addr().unwrap().port();
    let addrs: Vec<(String, &'static str)> = vec![
        (format!("unix:{}", upath.display()), "unix-path"),
        (format!("unix:{};mode=0600", upath.display()), "unix-path-mode"),
        (format!("unix:@{}", aname), "unix-abstract"),
        (format!("tcp:127.0.0.1:{}", tport), "tcp"),
    ];
    for l in [ul, al] {
        std::thread::spawn(move || {
            for s in l.incoming().flatten() {
                std::thread::spawn(move || serve_conn(s));
            }
        });
    }
    std::thread::spawn(move || {
        for s in tl.incoming().flatten() {
            std::thread::spawn(move || serve_conn(s));
        }
    });
    let pool = value_pool();
    let fails: Arc<Mutex<Vec<Value>>> = Default::default();
    let execs = Arc::new(AtomicUsize::new(0));
    let next = Arc::new(AtomicUsize::new(0));
    let mut hs = Vec::new();
    for _ in 0..8 {
        let (cases, fails, execs, next, addrs, pool, bin) = (cases.clone(), fails.clone(), execs.clone(), next.clone(), addrs.clone(), pool.clone(), bin.clone());
        hs.push(std::thread::spawn(move || loop {
            let i = next.fetch_add(1, Ordering::SeqCst);
            if i >= cases.len() {
                break;
            }
            let case = &cases[i];
            let script = case["script"].as_array().unwrap();
            let more = case["more"].as_bool().unwrap();
            let obs = &case["obs"];
            // a stream that is still open: every reply is on standard output when it has arrived, not when the call is over
            if more && !script.is_empty() {
                if let Some(d) = paced_stream(&bin, &addrs[i % addrs.len()].0, i, script, obs, &pool) {
                    fails.lock().unwrap().push(json!({"fail": true, "case": i, "variant": format!("{} paced stream", addrs[i % addrs.len()].1), "detail": d,
                        "sig": format!("paced script={}", case["script"]), "input": case}));
                }
                execs.fetch_add(1, Ordering::Relaxed);
            }
            // every address form and both colour settings; the value pool rotates
            for (ai, (addr, aname)) in addrs.iter().enumerate() {
                for colour in ["on", "off"] {
                    let base = i * 7 + ai * 3 + if colour == "on" { 1 } else { 0 };
                    // concrete replies
                    let mut replies: Vec<Value> = Vec::new();
                    for (k, r) in script.iter().enumerate() {
                        let val = pool[(base + k) % pool.len()].clone();
                        let mut v = json!({});
                        let has_par = r["par"].as_bool().unwrap();
                        match r["err"].as_str().unwrap() {
                            "" => {
                                if has_par {
                                    v["parameters"] = val;
                                }
                            }
                            "std" => {
                                // the four standard errors in turn, each with its own parameter
                                let (name, key) = [("InvalidParameter", "parameter"), ("InterfaceNotFound", "interface"),
                                                   ("MethodNotFound", "method"), ("MethodNotImplemented", "method")][(base + k) % 4];
                                v["error"] = json!(format!("org.varlink.service.{}", name));
                                v["parameters"] = json!({key: format!("p{}x{}", k, base)});
                            }
                            _ => {
                                v["error"] = json!(format!("org.example.t.Custom{}", k));
                                if has_par {
                                    v["parameters"] = val;
                                }
                            }
                        }
                        if r["cont"] == json!(true) {
                            v["continues"] = json!(true);
                        }
                        replies.push(v);
                    }
                    let args = json!({"replies": replies, "close": true});
                    let mut cmd = Command::new(&bin);
                    cmd.arg("--color").arg(colour).arg("call");
                    if more {
                        cmd.arg("--more");
                    }
                    cmd.arg(format!("{}/org.example.t.M", addr)).arg(args.to_string());
                    cmd.stdin(Stdio::null()).stdout(Stdio::piped()).stderr(Stdio::piped());
                    execs.fetch_add(1, Ordering::Relaxed);
                    let variant = format!("{} color={} more={}", aname, colour, more);
                    let mut fail = |d: String| {
                        fails.lock().unwrap().push(json!({"fail": true, "case": i, "variant": variant, "detail": d,
                            "sig": format!("script={} more={}", case["script"], more), "input": case, "replies": replies}));
                    };
                    let mut child = match cmd.spawn() {
                        Ok(c) => c,
                        Err(e) => {
                            fail(format!("cannot run {}: {}", bin, e));
                            continue;
                        }
                    };
                    // watchdog
                    let t0 = std::time::Instant::now();
                    let mut timed_out = false;
                    loop {
                        match child.try_wait() {
                            Ok(Some(_)) => break,
                            Ok(None) => {
                                if t0.elapsed() > Duration::from_secs(10) {
                                    let _ = child.kill();
                                    timed_out = true;
                                    break;
                                }
                                std::thread::sleep(Duration::from_millis(1));
                            }
                            Err(_) => break,
                        }
                    }
                    let out = child.wait_with_output().unwrap();
                    if timed_out {
                        fail("varlink call did not terminate within 10 s".into());
                        continue;
                    }
                    let so = strip_ansi(&String::from_utf8_lossy(&out.stdout));
                    let se = strip_ansi(&String::from_utf8_lossy(&out.stderr));
                    let code = out.status.code().unwrap_or(-1);
                    // stdout: a stream of JSON values
                    let mut got: Vec<Value> = Vec::new();
                    let mut bad = None;
                    for v in serde_json::Deserializer::from_str(&so).into_iter::<Value>() {
                        match v {
                            Ok(v) => got.push(v),
                            Err(e) => {
                                bad = Some(format!("stdout is not a stream of JSON values ({}): {:?}", e, lossy(so.as_bytes())));
                                break;
                            }
                        }
                    }
                    if let Some(b) = bad {
                        fail(b);
                        continue;
                    }
                    let want: Vec<Value> = obs["out"].as_array().unwrap().iter().map(|ix| {
                        let r = &replies[ix.as_u64().unwrap() as usize - 1];
                        r.get("parameters").cloned().unwrap_or(json!({}))
                    }).collect();
                    if got != want {
                        fail(format!("stdout values {:?}, expected the parameters of the successful replies in order {:?}", got, want));
                        continue;
                    }
                    let want_exit = obs["exit"].as_i64().unwrap() as i32;
                    if (code == 0) != (want_exit == 0) {
                        fail(format!("exit status {}, expected {} (stderr: {:?})", code, if want_exit == 0 { "0" } else { "non-zero" }, lossy(se.as_bytes())));
                        continue;
                    }
                    // stderr names the error and its parameters
                    let erri = obs["erri"].as_u64().unwrap() as usize;
                    if erri > 0 {
                        let r = &replies[erri - 1];
                        let name = r["error"].as_str().unwrap();
                        let shown = if name.starts_with("org.varlink.service.") { &name["org.varlink.service.".len()..] } else { name };
                        if !se.contains(shown) {
                            fail(format!("stderr does not name the error {}: {:?}", shown, lossy(se.as_bytes())));
                            continue;
                        }
                        if let Some(p) = r.get("parameters") {
                            if name.starts_with("org.varlink.service.") {
                                let pv = p.as_object().and_then(|o| o.values().next()).and_then(|x| x.as_str()).unwrap_or("");
                                if !se.contains(pv) {
                                    fail(format!("stderr does not show the error parameter {}: {:?}", p, lossy(se.as_bytes())));
                                    continue;
                                }
                            } else {
                                // the parameters are printed as JSON after the name
                                let after = se.split(shown).nth(1).unwrap_or("");
                                let pv = serde_json::Deserializer::from_str(after.trim_start()).into_iter::<Value>().next();
                                if pv.and_then(|x| x.ok()).as_ref() != Some(p) {
                                    fail(format!("stderr does not report the error parameters {} : {:?}", p, lossy(se.as_bytes())));
                                    continue;
                                }
                            }
                        }
                    } else if want_exit != 0 && se.trim().is_empty() {
                        fail("failure without any message on stderr".into());
                    }
                }
            }
        }));
    }
    for h in hs {
        let _ = h.join();
    }
    stop.store(true, Ordering::SeqCst);
    let _ = std::fs::remove_dir_all(&dir);
    for f in fails.lock().unwrap().iter().take(60) {
        emit(f);
    }
    emit(&json!({"summary": true, "cases": cases.len(), "executions": execs.load(Ordering::Relaxed), "failures": fails.lock().unwrap().len()}));
}

/// `vh cliforms` — the read-only commands (info / help / call) x ways of reaching the service (direct address,
/// resolver lookup, --activate, --bridge) x known / unknown interface; expectations from Cli.tla CmdObserve.
pub fn run_forms(_args: &[String]) {
    use crate::conn::Server;
    use crate::svc;
    use std::convert::TryFrom;
    let bin = std::env::var("VERIF_VARLINK_BIN").expect("VERIF_VARLINK_BIN");
    let cases = read_cases();
    let dir = tmpdir("cliforms");
    let addr_a = format!("unix:{}/a", dir.display());
    let addr_r = format!("unix:{}/r", dir.display());
    let la: svc::SharedLog = Default::default();
    let mut a = Server::start_with(&addr_a, 2, 8, svc::standard_service(la.clone()), la);
    let mut map = std::collections::HashMap::new();
    map.insert("org.example.gen".to_string(), addr_a.clone());
    let lr: svc::SharedLog = Default::default();
    let mut r = Server::start_with(&addr_r, 2, 8, svc::resolver_service(map), lr);
    let exe = std::env::current_exe().unwrap().display().to_string();
    let act = format!("{} actserve --varlink=$VARLINK_ADDRESS", exe);
    let br = format!("{} stdioserve", exe);
    let mut nfail = 0;
    let mut execs = 0;
    let want_descr = crate::idl::project(&varlink_parser::IDL::try_from(crate::conn::GEN_DESCR).unwrap());
    for case in &cases {
        let forms = match case.get("forms").and_then(|f| f.as_array()) {
            Some(f) => f,
            None => continue,
        };
        for f in forms {
            let cmd = f["c"]["cmd"].as_str().unwrap();
            let form = f["c"]["form"].as_str().unwrap();
            let known = f["c"]["known"].as_bool().unwrap();
            let obs = &f["obs"];
            let iface = if known { "org.example.gen" } else { "org.unknown.x" };
            for colour in ["off", "on"] {
                let mut c = Command::new(&bin);
                c.arg("--color").arg(colour);
                match form {
                    "resolver" => { c.arg("-R").arg(&addr_r); }
                    "activate" => { c.arg("--activate").arg(&act); }
                    "bridge" => { c.arg("--bridge").arg(&br); }
                    _ => {}
                }
                match (cmd, form) {
                    ("info", "direct") => { c.arg("info").arg(&addr_a); }
                    ("info", "resolver") => { c.arg("info").arg(iface); }
                    ("info", _) => { c.arg("info"); }
                    ("help", "direct") => { c.arg("help").arg(format!("{}/{}", addr_a, iface)); }
                    ("help", _) => { c.arg("help").arg(iface); }
                    ("call", "direct") => { c.arg("call").arg(format!("{}/{}.Ping", addr_a, iface)).arg(r#"{"ping":"forms"}"#); }
                    (_, _) => { c.arg("call").arg(format!("{}.Ping", iface)).arg(r#"{"ping":"forms"}"#); }
                }
                c.stdin(Stdio::null()).stdout(Stdio::piped()).stderr(Stdio::piped());
                execs += 1;
                let mut fail = |d: String| {
                    nfail += 1;
                    emit(&json!({"fail": true, "case": 0, "variant": format!("{} {} known={} color={}", cmd, form, known, colour), "detail": d,
                        "sig": format!("forms {} {} known={}", cmd, form, known), "input": f}));
                };
                let mut child = match c.spawn() { Ok(ch) => ch, Err(e) => { fail(format!("cannot run {}: {}", bin, e)); continue; } };
                let t0 = std::time::Instant::now();
                let mut hung = false;
                loop {
                    match child.try_wait() {
                        Ok(Some(_)) => break,
                        Ok(None) => { if t0.elapsed() > Duration::from_secs(10) { let _ = child.kill(); hung = true; break; } std::thread::sleep(Duration::from_millis(1)); }
                        Err(_) => break,
                    }
                }
                let out = child.wait_with_output().unwrap();
                if hung { fail("the command did not terminate within 10 s".into()); continue; }
                let so = strip_ansi(&String::from_utf8_lossy(&out.stdout));
                let se = strip_ansi(&String::from_utf8_lossy(&out.stderr));
                let ok = out.status.success();
                let want_ok = obs["exit"] == json!(0);
                if ok != want_ok {
                    fail(format!("exit status {:?}, expected {} -- stdout {:?} stderr {:?}", out.status, if want_ok { "success" } else { "failure" }, lossy(so.as_bytes()), lossy(se.as_bytes())));
                    continue;
                }
                match obs["out"].as_str().unwrap() {
                    "nothing" => {
                        if !so.trim().is_empty() { fail(format!("output on stdout although the command failed: {:?}", lossy(so.as_bytes()))); }
                        else if se.trim().is_empty() { fail("failure without a message on stderr".into()); }
                    }
                    "service-info" => {
                        let lines: Vec<&str> = so.lines().collect();
                        let has = |p: &str, v: &str| lines.iter().any(|l| l.trim() == format!("{} {}", p, v));
                        let ifs: Vec<&str> = lines.iter().skip_while(|l| l.trim() != "Interfaces:").skip(1).map(|l| l.trim()).filter(|l| !l.is_empty()).collect();
                        let mut sorted = ifs.clone();
                        sorted.sort();
                        if !(has("Vendor:", svc::VENDOR) && has("Product:", svc::PRODUCT) && has("Version:", svc::VERSION) && has("URL:", svc::URL))
                            || ifs.first() != Some(&"org.varlink.service") || sorted != vec!["org.example.gen", "org.example.script", "org.varlink.service"] {
                            fail(format!("info output does not show the service's identity and interfaces: {:?}", lossy(so.as_bytes())));
                        }
                    }
                    "formatted-description" => match varlink_parser::IDL::try_from(so.as_str()) {
                        Ok(idl) => if crate::idl::project(&idl) != want_descr { fail(format!("help prints a different definition: {:?}", lossy(so.as_bytes()))); },
                        Err(e) => fail(format!("help output does not parse ({}): {:?}", e, lossy(so.as_bytes()))),
                    },
                    _ => {
                        let v: Option<Value> = serde_json::from_str(&so).ok();
                        if v != Some(json!({"pong": "forms"})) { fail(format!("call printed {:?}, expected the reply parameters", lossy(so.as_bytes()))); }
                    }
                }
            }
        }
    }
    a.stop();
    r.stop();
    let _ = std::fs::remove_dir_all(&dir);
    emit(&json!({"summary": true, "cases": cases.len(), "executions": execs, "failures": nfail}));
}
