//! `vh gen` — C08/C09: run the generator's library front-ends on spec-enumerated interface definitions.
//! Input: NDJSON {"name": module name, "text": definition}.  For each: generate (tosource false/true),
//! generate_with_options(default), compile() under catch_unwind; the emitted code is written to --out=DIR/<name>.rs.
//! Output: one observation per case (not verdicts; vlib/gen_checks.py decides).
use std::panic::{catch_unwind, AssertUnwindSafe};

use serde_json::{json, Value};

use crate::util::*;

fn front(text: &str, which: &str) -> Value {
    let _wd = crate::conn::watched(&format!("generator front-end {}", which), &[text.as_bytes().to_vec()]);
    let r = catch_unwind(AssertUnwindSafe(|| -> Result<String, String> {
        match which {
            "generate" | "generate_tosource" => {
                let mut out: Vec<u8> = Vec::new();
                varlink_generator::generate(&mut text.as_bytes(), &mut out, which == "generate_tosource").map_err(|e| format!("{}", e))?;
                Ok(String::from_utf8_lossy(&out).to_string())
            }
            "generate_with_options" => {
                let mut out: Vec<u8> = Vec::new();
                varlink_generator::generate_with_options(&mut text.as_bytes(), &mut out, &varlink_generator::GeneratorOptions { ..Default::default() }, false)
                    .map_err(|e| format!("{}", e))?;
                Ok(String::from_utf8_lossy(&out).to_string())
            }
            _ => varlink_generator::compile(text.to_string()).map(|ts| ts.to_string()).map_err(|e| format!("{}", e)),
        }
    }));
    match r {
        Err(p) => {
            let msg = p.downcast_ref::<String>().cloned().or_else(|| p.downcast_ref::<&str>().map(|s| s.to_string())).unwrap_or_default();
            json!({"panic": true, "msg": msg})
        }
        Ok(Err(e)) => json!({"err": e}),
        Ok(Ok(code)) => json!({"code": code}),
    }
}

pub fn run(args: &[String]) {
    let out = args.iter().find_map(|a| a.strip_prefix("--out=")).map(String::from).expect("--out=DIR");
    std::fs::create_dir_all(&out).unwrap();
    // panics are data here: keep them off stderr
    std::panic::set_hook(Box::new(|_| {}));
    let cases = read_cases();
    for c in &cases {
        let name = c["name"].as_str().unwrap();
        let text = c["text"].as_str().unwrap();
        let mut obs = serde_json::Map::new();
        for which in ["generate", "generate_tosource", "generate_with_options", "compile"] {
            let mut o = front(text, which);
            if let Some(code) = o.get("code").and_then(|x| x.as_str()).map(String::from) {
                if which == "generate_tosource" {
                    let _ = std::fs::write(format!("{}/{}.rs", out, name), &code);
                }
                use std::hash::{Hash, Hasher};
                let mut h = std::collections::hash_map::DefaultHasher::new();
                code.hash(&mut h);
                let hs = h.finish().to_string();
                o = json!({"ok": true, "len": code.len(), "hash": hs});
            }
            obs.insert(which.into(), o);
        }
        emit(&json!({"obs": true, "name": name, "fronts": obs}));
    }
    emit(&json!({"summary": true, "cases": cases.len(), "executions": cases.len() * 4, "failures": 0}));
}

/// `vh cargobuild FILE`: the build-script helper (needs OUT_DIR); it terminates the process on errors by itself
pub fn run_cargobuild(args: &[String]) {
    if args[0] == "--many" {
        let files: Vec<&String> = args[1..].iter().collect();
        varlink_generator::cargo_build_many(&files);
    } else if args[0] == "--tosource" {
        // writes <dir>/<name with _ for .>.rs beside the input
        varlink_generator::cargo_build_tosource(&args[1], false);
    } else {
        varlink_generator::cargo_build(&args[0]);
    }
}
