//! `vh conntrace` — impl -> spec: drive real connections with long random pipelined request
//! sequences (random segmentation and delays), record what was sent and what came back as an
//! NDJSON trace of abstract events; specs/Trace_Conn.tla must accept the whole trace.
//!
//! The projection reply -> abstract item does not consult the specification: it classifies the
//! reply by its own content and attributes it to a request by the token it carries.
use std::io::Write;
use std::time::Duration;

use serde_json::{json, Value};

use crate::conn::*;
use crate::util::*;

const KINDS: &[(&str, u32)] = &[
    ("GetInfo", 6), ("DescrSvc", 2), ("DescrKnown", 3), ("DescrUnknown", 3), ("DescrNoParams", 3),
    ("SvcUnknownMethod", 4), ("UnknownIface", 6), ("NoDot", 6), ("EmptyIface", 3), ("TrailingDot", 2),
    ("PrefixIface", 3), ("SuffixIface", 3), ("GenOk", 12), ("GenExtraMember", 2), ("GenNullParams", 2),
    ("GenNoParams", 4), ("GenNoArgs", 4), ("GenStream0", 4), ("GenStream2", 8), ("GenFail", 5),
    ("GenUnknownMethod", 4), ("Script", 10),
    // connection-ending kinds are rare so that sequences get long
    ("GenBadParams", 1), ("DescrIllTyped", 1), ("GenUp", 1), ("BadJson", 1), ("BadUtf8", 1),
    ("WrongMemberType", 1), ("EmptyMsg", 1), ("NotObject", 1), ("NoMethod", 1),
];

fn pick_kind(rng: &mut Rng) -> &'static str {
    let total: u32 = KINDS.iter().map(|k| k.1).sum();
    let mut x = (rng.next() % total as u64) as u32;
    for (k, w) in KINDS {
        if x < *w {
            return k;
        }
        x -= w;
    }
    "GenOk"
}

fn random_req(rng: &mut Rng) -> Value {
    let k = pick_kind(rng);
    let malformed = matches!(k, "BadJson" | "BadUtf8" | "WrongMemberType" | "EmptyMsg" | "NotObject" | "NoMethod");
    let (more, oneway, upgrade) = if malformed {
        (false, false, false)
    } else {
        (rng.chance(1, 3), rng.chance(1, 5) && k != "GenUp", rng.chance(1, 12))
    };
    let script: Vec<&str> = if k == "Script" {
        let n = rng.below(5);
        let steps = ["c1", "c0", "r", "R", "e", "r", "R"];
        let mut s: Vec<&str> = (0..n).map(|_| steps[rng.below(steps.len())]).collect();
        if rng.chance(1, 12) {
            s.push("x");
        }
        s
    } else {
        vec![]
    };
    json!({"k": k, "more": more, "oneway": oneway, "upgrade": upgrade, "script": script})
}

/// classify one reply by its own content; attribute it to a request by token
fn project(reply: &Value, creqs: &[CReq]) -> Value {
    let txt = reply.to_string();
    let mut req = 0usize;
    for (i, c) in creqs.iter().enumerate() {
        if txt.contains(&c.tok) {
            req = i + 1;
            break;
        }
    }
    // a reply that carries a token of another connection is a leak between connections
    if req == 0 {
        if let Some(p) = txt.find("x") {
            let _ = p;
        }
        let own_salt = creqs.first().map(|c| c.tok.split('x').nth(1).unwrap_or("").to_string()).unwrap_or_default();
        let bytes = txt.as_bytes();
        let mut i = 0;
        while i + 2 < bytes.len() {
            // token shape: t<digits>x<alnum>
            if bytes[i] == b't' && bytes[i + 1].is_ascii_digit() {
                let mut k = i + 1;
                while k < bytes.len() && bytes[k].is_ascii_digit() { k += 1; }
                if k < bytes.len() && bytes[k] == b'x' {
                    let mut e = k + 1;
                    while e < bytes.len() && bytes[e].is_ascii_alphanumeric() { e += 1; }
                    let salt = &txt[k + 1..e];
                    if !salt.is_empty() && salt != own_salt && (salt.starts_with('T') || salt.starts_with('c') || salt.starts_with('m')) {
                        return json!({"ev": "reply", "req": 0, "cont": false, "err": "FOREIGN-TOKEN", "arg": txt});
                    }
                }
            }
            i += 1;
        }
    }
    let cont = reply["continues"] == json!(true);
    let err_full = reply["error"].as_str().unwrap_or("");
    let err = err_full.rsplit('.').next().unwrap_or("");
    let p = &reply["parameters"];
    let arg: String = if err_full.is_empty() {
        if p.get("interfaces").is_some() {
            // GetInfo: the four strings and the interface list are checked here, the spec only sees "info"
            let ok = p["vendor"] == crate::svc::VENDOR && p["product"] == crate::svc::PRODUCT
                && p["version"] == crate::svc::VERSION && p["url"] == crate::svc::URL
                && p["interfaces"][0] == "org.varlink.service" && p["interfaces"].as_array().map(|a| a.len()) == Some(3);
            if ok { "info".into() } else { "info-wrong".into() }
        } else if p.get("description").is_some() {
            if p["description"] == SVC_DESCR { "descr_svc".into() } else if p["description"] == GEN_DESCR { "descr_known".into() } else { "descr-wrong".into() }
        } else if p.get("pong").is_some() {
            "pong".into()
        } else if p.get("i").is_some() {
            "stream".into()
        } else if p.get("step").is_some() {
            "step".into()
        } else if p.get("tok").is_some() {
            "tok".into()
        } else if reply.get("parameters").is_none() || p.as_object().map(|o| o.is_empty()) == Some(true) {
            "empty".into()
        } else {
            "unknown".into()
        }
    } else {
        match err {
            "InvalidParameter" => match p["parameter"].as_str() {
                Some("interface") => "interface".into(),
                Some("parameters") => "parameters".into(),
                Some(_) => "serde".into(),
                None => "missing".into(),
            },
            "MethodNotFound" => {
                let m = p["method"].as_str().unwrap_or("");
                if req > 0 && creqs[req - 1].method == m { "method".into() }
                else if m == "org.example.gen." { "method".into() }
                else { format!("method-wrong:{}", m) }
            }
            "InterfaceNotFound" => {
                let i = p["interface"].as_str().unwrap_or("\u{1}");
                if req > 0 && creqs[req - 1].method == i { "method".into() }
                else if req > 0 && creqs[req - 1].method.rfind('.').map(|n| &creqs[req - 1].method[..n]) == Some(i) { "iface".into() }
                else if i.is_empty() || i == "org.example" { "iface".into() }
                else { format!("iface-wrong:{}", i) }
            }
            "Failed" => "reason".into(),
            "NeedsMore" => "none".into(),
            "ScriptError" => "step".into(),
            "MethodNotImplemented" => if req > 0 && p["method"] == json!(creqs[req - 1].method) { "method".into() } else { "method-wrong".into() },
            _ => "unknown-error".into(),
        }
    };
    json!({"ev": "reply", "req": req, "cont": cont, "err": err, "arg": arg})
}

fn one_conn(addr: &str, log: &crate::svc::SharedLog, rng: &mut Rng, salt: &str, maxlen: usize, sync: Option<&std::sync::Barrier>) -> (Vec<Value>, usize) {
    let n = 1 + rng.below(maxlen);
    let reqs: Vec<Value> = (0..n).map(|_| random_req(rng)).collect();
    let creqs: Vec<CReq> = reqs.iter().enumerate().map(|(i, r)| concretise(r, i + 1, salt, 0)).collect();
    let mut stream = Vec::new();
    for c in &creqs {
        stream.extend_from_slice(&c.bytes);
        stream.push(0);
    }
    let k = rng.below(8);
    let mut cuts: Vec<usize> = (0..k).map(|_| 1 + rng.below(stream.len().max(2) - 1)).collect();
    cuts.sort();
    cuts.dedup();
    let mut chunks = Vec::new();
    let mut from = 0;
    for c in cuts {
        if c > from && c < stream.len() {
            chunks.push(stream[from..c].to_vec());
            from = c;
        }
    }
    chunks.push(stream[from..].to_vec());
    let ends_stream = reqs.iter().any(|r| r["k"] == "GenUp");
    let stok = format!("SENTINEL{}", salt);
    let sentinel_bytes = {
        let mut b = serde_json::to_vec(&json!({"method": "org.example.gen.Ping", "parameters": {"ping": stok}})).unwrap();
        b.push(0);
        b
    };
    let up_tok: Option<String> = reqs.iter().position(|r| r["k"] == "GenUp").map(|i| creqs[i].tok.clone());
    if sync.is_none() && rng.chance(1, 4) {
        std::thread::sleep(Duration::from_micros(rng.below(800) as u64));
    }
    let obs = crate::conn::run_socket_sync(addr, log, &chunks, if ends_stream { None } else { Some(&sentinel_bytes) }, &stok, up_tok.as_deref(), sync);
    let mut ev: Vec<Value> = Vec::new();
    ev.push(json!({"ev": "conn", "id": salt}));
    for r in &reqs {
        let mut e = r.clone();
        e.as_object_mut().unwrap().insert("ev".into(), json!("req"));
        ev.push(e);
    }
    let (msgs, rest) = split_nul(&obs.out);
    let mut saw_sentinel = false;
    for m in &msgs {
        match serde_json::from_slice::<Value>(m) {
            Ok(v) => {
                if v.to_string().contains(&stok) {
                    saw_sentinel = true;
                    continue;
                }
                ev.push(project(&v, &creqs));
            }
            Err(_) => ev.push(json!({"ev": "reply", "req": 0, "cont": false, "err": "NOT-JSON", "arg": lossy(m)})),
        }
    }
    if !rest.is_empty() {
        ev.push(json!({"ev": "reply", "req": 0, "cont": false, "err": "UNTERMINATED", "arg": lossy(&rest)}));
    }
    let upgraded_seen = obs.up_tok_seen || (up_tok.is_some() && obs.out.windows(up_tok.as_ref().unwrap().len()).any(|w| w == up_tok.as_ref().unwrap().as_bytes()));
    let state = if obs.end == "hang" || obs.end == "connect-failed" { obs.end.as_str() } else if saw_sentinel { "open" } else if ends_stream && upgraded_seen { "upgraded" } else { "closed" };
    let mut upok = true;
    if state == "upgraded" {
        let i = reqs.iter().position(|r| r["k"] == "GenUp").unwrap();
        let mut want = Vec::new();
        for c in &creqs[i + 1..] {
            want.extend_from_slice(&c.bytes);
            want.push(0);
        }
        upok = obs.up_rx == want;
    }
    ev.push(json!({"ev": "end", "state": state, "upok": upok}));
    {
        let mut l = log.lock().unwrap();
        for c in &creqs {
            l.script.remove(&c.tok);
            l.up_rx.remove(&c.tok);
            l.up_calls.remove(&c.tok);
        }
    }
    (ev, n)
}

pub fn run(args: &[String]) {
    let conns: usize = args.iter().find_map(|a| a.strip_prefix("--conns=").and_then(|s| s.parse().ok())).unwrap_or(50);
    let maxlen: usize = args.iter().find_map(|a| a.strip_prefix("--maxlen=").and_then(|s| s.parse().ok())).unwrap_or(16);
    let clients: usize = args.iter().find_map(|a| a.strip_prefix("--clients=").and_then(|s| s.parse().ok())).unwrap_or(1);
    let badpeers: usize = args.iter().find_map(|a| a.strip_prefix("--badpeers=").and_then(|s| s.parse().ok())).unwrap_or(0);
    // --burst=R: the first R connections of every client are made in lock step: all clients connect at the same moment, nobody
    // closes before everybody has waited for its replies (a connection served only once another one ends shows up as a hang)
    let burst: usize = args.iter().find_map(|a| a.strip_prefix("--burst=").and_then(|s| s.parse().ok())).unwrap_or(0);
    let outp = args.iter().find_map(|a| a.strip_prefix("--out=")).unwrap_or("/dev/stdout").to_string();
    let transport = args.iter().find_map(|a| a.strip_prefix("--transport=")).unwrap_or("unix").to_string();
    let dir = tmpdir("conntrace");
    let addr = if transport == "tcp" {
        format!("tcp:127.0.0.1:{}", free_port(false))
    } else {
        format!("unix:{}/s", dir.display())
    };
    let nthreads = clients + badpeers;
    let initial: usize = args.iter().find_map(|a| a.strip_prefix("--initial=").and_then(|s| s.parse().ok())).unwrap_or(4);
    let mut server = Server::start(&addr, initial, nthreads * 2 + 16);
    let f = std::sync::Arc::new(std::sync::Mutex::new(std::io::BufWriter::new(std::fs::File::create(&outp).expect("trace file"))));
    let total_reqs = std::sync::Arc::new(std::sync::atomic::AtomicUsize::new(0));
    let done = std::sync::Arc::new(std::sync::atomic::AtomicBool::new(false));
    // misbehaving / idle peers, alive for the whole run
    let mut bad = Vec::new();
    for b in 0..badpeers {
        let addr = addr.clone();
        let done = done.clone();
        bad.push(std::thread::spawn(move || {
            let mut rng = Rng::new(seed() * 104729 + b as u64);
            while !done.load(std::sync::atomic::Ordering::SeqCst) {
                let s = AnyStream::connect(&addr);
                if let Ok(mut s) = s {
                    match b % 5 {
                        4 => {
                            // well-formed but unusual: parameters nested as deep as a JSON parser accepts, then stays idle
                            let deep = format!("{}1{}", "{\"a\":".repeat(120), "}".repeat(120));
                            let _ = s.write_all(format!("{{\"method\":\"org.example.gen.Ping\",\"parameters\":{{\"ping\":\"x\",\"deep\":{}}}}}\0", deep).as_bytes());
                            while !done.load(std::sync::atomic::Ordering::SeqCst) {
                                std::thread::sleep(Duration::from_millis(5));
                            }
                        }
                        0 => {
                            // idle peer: connects, sends nothing, stays
                            while !done.load(std::sync::atomic::Ordering::SeqCst) {
                                std::thread::sleep(Duration::from_millis(5));
                            }
                        }
                        1 => {
                            // connects, sends nothing, leaves
                            std::thread::sleep(Duration::from_millis(rng.below(20) as u64));
                        }
                        2 => {
                            // disconnects in the middle of a message
                            let _ = s.write_all(br#"{"method":"org.example.gen.Ping","parameters":{"pi"#);
                            std::thread::sleep(Duration::from_millis(rng.below(10) as u64));
                        }
                        _ => {
                            // sends garbage, then half of a valid message, and waits to be thrown out
                            let _ = s.write_all(b"\xff{{{\0");
                            std::thread::sleep(Duration::from_millis(rng.below(10) as u64));
                        }
                    }
                }
            }
        }));
    }
    let per = (conns + clients - 1) / clients;
    let burst = burst.min(per);
    let barrier = std::sync::Arc::new(std::sync::Barrier::new(clients));
    let mut hs = Vec::new();
    for c in 0..clients {
        let barrier = barrier.clone();
        let addr = addr.clone();
        let log = server.log.clone();
        let f = f.clone();
        let total_reqs = total_reqs.clone();
        hs.push(std::thread::spawn(move || {
            let mut rng = Rng::new(seed() * 7919 + 13 + c as u64 * 1_000_003);
            for k in 0..per {
                let salt = format!("T{}q{}", c, k);
                let (ev, n) = one_conn(&addr, &log, &mut rng, &salt, maxlen, if k < burst { Some(&*barrier) } else { None });
                total_reqs.fetch_add(n, std::sync::atomic::Ordering::Relaxed);
                let mut g = f.lock().unwrap();
                for e in ev {
                    let _ = writeln!(g, "{}", e);
                }
            }
        }));
    }
    for h in hs {
        let _ = h.join();
    }
    done.store(true, std::sync::atomic::Ordering::SeqCst);
    for b in bad {
        let _ = b.join();
    }
    let _ = f.lock().unwrap().flush();
    server.stop();
    let _ = std::fs::remove_dir_all(&dir);
    let (np, first) = lib_panics();
    if np > 0 {
        emit(&json!({"fail": true, "case": 0, "variant": "library-panic", "sig": "library-panic",
            "detail": format!("the service's own code panicked {} time(s) while serving these connections (first: {})", np, first.chars().take(300).collect::<String>())}));
    }
    emit(&json!({"summary": true, "conns": per * clients, "requests": total_reqs.load(std::sync::atomic::Ordering::Relaxed), "failures": 0, "executions": per * clients}));
}
