//! `vh conntrace` — impl -> spec: drive real connections with long random pipelined request
//! sequences (random segmentation and delays), record what was sent and what came back as an
//! NDJSON trace of abstract events; specs/Trace_Conn.tla must accept the whole trace.
//!
//! The projection reply -> abstract item does not consult the specification: it classifies the
//! reply by its own content and attributes it to a request by the token it carries.
use std::io::Write;
use std::time::Duration;

use serde_json::{json, Value};

use crate::conn::*;
use crate::util::*;

const KINDS: &[(&str, u32)] = &[
    ("GetInfo", 6), ("DescrSvc", 2), ("DescrKnown", 3), ("DescrUnknown", 3), ("DescrNoParams", 3),
    ("SvcUnknownMethod", 4), ("UnknownIface", 6), ("NoDot", 6), ("EmptyIface", 3), ("TrailingDot", 2),
    ("PrefixIface", 3), ("SuffixIface", 3), ("GenOk", 12), ("GenExtraMember", 2), ("GenNullParams", 2),
    ("GenNoParams", 4), ("GenNoArgs", 4), ("GenStream0", 4), ("GenStream2", 8), ("GenFail", 5),
    ("GenUnknownMethod", 4), ("Script", 10),
    // connection-ending kinds are rare so that sequences get long
    ("GenBadParams", 1), ("DescrIllTyped", 1), ("GenUp", 1), ("BadJson", 1), ("BadUtf8", 1),
    ("WrongMemberType", 1), ("EmptyMsg", 1), ("NotObject", 1), ("NoMethod", 1),
];

fn pick_kind(rng: &mut Rng) -> &'static str {
    let total: u32 = KINDS.iter().map(|k| k.1).sum();
    let mut x = (rng.next() % total as u64) as u32;
    for (k, w) in KINDS {
        if x < *w {
            return k;
        }
        x -= w;
    }
    "GenOk"
}

fn random_req(rng: &mut Rng) -> Value {
    let k = pick_kind(rng);
    let malformed = matches!(k, "BadJson" | "BadUtf8" | "WrongMemberType" | "EmptyMsg" | "NotObject" | "NoMethod");
    let (more, oneway, upgrade) = if malformed {
        (false, false, false)
    } else {
        (rng.chance(1, 3), rng.chance(1, 5) && k != "GenUp", rng.chance(1, 12))
    };
    let script: Vec<&str> = if k == "Script" {
        let n = rng.below(5);
        let steps = ["c1", "c0", "r", "R", "e", "r", "R"];
        let mut s: Vec<&str> = (0..n).map(|_| steps[rng.below(steps.len())]).collect();
        if rng.chance(1, 12) {
            s.push("x");
        }
        s
    } else {
        vec![]
    };
    json!({"k": k, "more": more, "oneway": oneway, "upgrade": upgrade, "script": script})
}

/// classify one reply by its own content; attribute it to a request by token
fn project(reply: &Value, creqs: &[CReq]) -> Value {
    let txt = reply.to_string();
    let mut req = 0usize;
    for (i, c) in creqs.iter().enumerate() {
        if txt.contains(&c.tok) {
            req = i + 1;
            break;
        }
    }
    let cont = reply["continues"] == json!(true);
    let err_full = reply["error"].as_str().unwrap_or("");
    let err = err_full.rsplit('.').next().unwrap_or("");
    let p = &reply["parameters"];
    let arg: String = if err_full.is_empty() {
        if p.get("interfaces").is_some() {
            // GetInfo: the four strings and the interface list are checked here, the spec only sees "info"
            let ok = p["vendor"] == crate::svc::VENDOR && p["product"] == crate::svc::PRODUCT
                && p["version"] == crate::svc::VERSION && p["url"] == crate::svc::URL
                && p["interfaces"][0] == "org.varlink.service" && p["interfaces"].as_array().map(|a| a.len()) == Some(3);
            if ok { "info".into() } else { "info-wrong".into() }
        } else if p.get("description").is_some() {
            if p["description"] == SVC_DESCR { "descr_svc".into() } else if p["description"] == GEN_DESCR { "descr_known".into() } else { "descr-wrong".into() }
        } else if p.get("pong").is_some() {
            "pong".into()
        } else if p.get("i").is_some() {
            "stream".into()
        } else if p.get("step").is_some() {
            "step".into()
        } else if p.get("tok").is_some() {
            "tok".into()
        } else if reply.get("parameters").is_none() || p.as_object().map(|o| o.is_empty()) == Some(true) {
            "empty".into()
        } else {
            "unknown".into()
        }
    } else {
        match err {
            "InvalidParameter" => match p["parameter"].as_str() {
                Some("interface") => "interface".into(),
                Some("parameters") => "parameters".into(),
                Some(_) => "serde".into(),
                None => "missing".into(),
            },
            "MethodNotFound" => {
                let m = p["method"].as_str().unwrap_or("");
                if req > 0 && creqs[req - 1].method == m { "method".into() }
                else if m == "org.example.gen." { "method".into() }
                else { format!("method-wrong:{}", m) }
            }
            "InterfaceNotFound" => {
                let i = p["interface"].as_str().unwrap_or("\u{1}");
                if req > 0 && creqs[req - 1].method == i { "method".into() }
                else if req > 0 && creqs[req - 1].method.rfind('.').map(|n| &creqs[req - 1].method[..n]) == Some(i) { "iface".into() }
                else if i.is_empty() || i == "org.example" { "iface".into() }
                else { format!("iface-wrong:{}", i) }
            }
            "Failed" => "reason".into(),
            "NeedsMore" => "none".into(),
            "ScriptError" => "step".into(),
            _ => "unknown-error".into(),
        }
    };
    json!({"ev": "reply", "req": req, "cont": cont, "err": err, "arg": arg})
}

pub fn run(args: &[String]) {
    let conns: usize = args.iter().find_map(|a| a.strip_prefix("--conns=").and_then(|s| s.parse().ok())).unwrap_or(50);
    let maxlen: usize = args.iter().find_map(|a| a.strip_prefix("--maxlen=").and_then(|s| s.parse().ok())).unwrap_or(16);
    let outp = args.iter().find_map(|a| a.strip_prefix("--out=")).unwrap_or("/dev/stdout").to_string();
    let transport = args.iter().find_map(|a| a.strip_prefix("--transport=")).unwrap_or("unix").to_string();
    let dir = tmpdir("conntrace");
    let addr = if transport == "tcp" {
        format!("tcp:127.0.0.1:{}", 21000 + (std::process::id() % 20000))
    } else {
        format!("unix:{}/s", dir.display())
    };
    let mut server = Server::start(&addr, 4, 16);
    let mut rng = Rng::new(seed() * 7919 + 13);
    let mut f = std::io::BufWriter::new(std::fs::File::create(&outp).expect("trace file"));
    let mut nfail = 0usize;
    let mut total_reqs = 0usize;
    for cid in 0..conns {
        let n = 1 + rng.below(maxlen);
        let reqs: Vec<Value> = (0..n).map(|_| random_req(&mut rng)).collect();
        let salt = format!("T{}", cid);
        let creqs: Vec<CReq> = reqs.iter().enumerate().map(|(i, r)| concretise(r, i + 1, &salt, 0)).collect();
        total_reqs += n;
        let mut stream = Vec::new();
        for c in &creqs {
            stream.extend_from_slice(&c.bytes);
            stream.push(0);
        }
        // random segmentation: 1..8 chunks, occasional small delays
        let k = rng.below(8);
        let mut cuts: Vec<usize> = (0..k).map(|_| 1 + rng.below(stream.len().max(2) - 1)).collect();
        cuts.sort();
        cuts.dedup();
        let mut chunks = Vec::new();
        let mut from = 0;
        for c in cuts {
            if c > from && c < stream.len() {
                chunks.push(stream[from..c].to_vec());
                from = c;
            }
        }
        chunks.push(stream[from..].to_vec());
        // does any request upgrade?  (the driver must know only to decide whether to use a sentinel: it looks
        // at the request kinds it generated, not at the spec)
        let ends_stream = reqs.iter().any(|r| r["k"] == "GenUp" );
        let stok = format!("SENTINEL{}", salt);
        let sentinel_bytes = {
            let mut b = serde_json::to_vec(&json!({"method": "org.example.gen.Ping", "parameters": {"ping": stok}})).unwrap();
            b.push(0);
            b
        };
        let up_tok: Option<String> = reqs.iter().position(|r| r["k"] == "GenUp").map(|i| creqs[i].tok.clone());
        if rng.chance(1, 4) {
            std::thread::sleep(Duration::from_micros(rng.below(800) as u64));
        }
        let obs = run_socket(&addr, &server.log, &chunks, if ends_stream { None } else { Some(&sentinel_bytes) }, &stok, up_tok.as_deref());
        let _ = writeln!(f, "{}", json!({"ev": "conn", "id": cid}));
        for r in &reqs {
            let mut e = r.clone();
            e.as_object_mut().unwrap().insert("ev".into(), json!("req"));
            let _ = writeln!(f, "{}", e);
        }
        let (msgs, rest) = split_nul(&obs.out);
        let mut saw_sentinel = false;
        for m in &msgs {
            match serde_json::from_slice::<Value>(m) {
                Ok(v) => {
                    if v.to_string().contains(&stok) {
                        saw_sentinel = true;
                        continue;
                    }
                    let _ = writeln!(f, "{}", project(&v, &creqs));
                }
                Err(_) => {
                    let _ = writeln!(f, "{}", json!({"ev": "reply", "req": 0, "cont": false, "err": "NOT-JSON", "arg": lossy(m)}));
                }
            }
        }
        if !rest.is_empty() {
            let _ = writeln!(f, "{}", json!({"ev": "reply", "req": 0, "cont": false, "err": "UNTERMINATED", "arg": lossy(&rest)}));
        }
        // observed end state
        let upgraded_seen = obs.up_tok_seen || (up_tok.is_some() && obs.out.windows(up_tok.as_ref().unwrap().len()).any(|w| w == up_tok.as_ref().unwrap().as_bytes()));
        let state = if obs.end == "hang" { "hang" } else if saw_sentinel { "open" } else if ends_stream && upgraded_seen { "upgraded" } else { "closed" };
        // upgraded payload check (bytes): everything after the upgrading request's NUL
        let mut upok = true;
        if state == "upgraded" {
            let i = reqs.iter().position(|r| r["k"] == "GenUp").unwrap();
            let mut want = Vec::new();
            for c in &creqs[i + 1..] {
                want.extend_from_slice(&c.bytes);
                want.push(0);
            }
            upok = obs.up_rx == want;
            if !upok {
                nfail += 0; // reported through the trace (upok=false is rejected by the spec)
            }
        }
        let _ = writeln!(f, "{}", json!({"ev": "end", "state": state, "upok": upok}));
        let mut l = server.log.lock().unwrap();
        l.script.clear();
        l.up_rx.clear();
        l.up_calls.clear();
    }
    let _ = f.flush();
    server.stop();
    let _ = std::fs::remove_dir_all(&dir);
    emit(&json!({"summary": true, "conns": conns, "requests": total_reqs, "failures": nfail, "executions": conns}));
}
