//! Small shared helpers: PRNG (no external crate), NDJSON I/O, sockets.
use std::io::{BufRead, Write};
use std::os::unix::io::AsRawFd;
use std::time::{Duration, Instant};

use serde_json::Value;

/// xorshift64* — deterministic, seeded from VERIF_SEED.
pub struct Rng(pub u64);
impl Rng {
    pub fn new(seed: u64) -> Rng {
        Rng(seed.wrapping_mul(0x9E3779B97F4A7C15) ^ 0xD1B54A32D192ED03 | 1)
    }
    pub fn next(&mut self) -> u64 {
        let mut x = self.0;
        x ^= x >> 12;
        x ^= x << 25;
        x ^= x >> 27;
        self.0 = x;
        x.wrapping_mul(0x2545F4914F6CDD1D)
    }
    pub fn below(&mut self, n: usize) -> usize {
        if n == 0 {
            0
        } else {
            (self.next() % n as u64) as usize
        }
    }
    pub fn chance(&mut self, num: u32, den: u32) -> bool {
        (self.next() % den as u64) < num as u64
    }
}

pub fn seed() -> u64 {
    std::env::var("VERIF_SEED").ok().and_then(|s| s.parse().ok()).unwrap_or(1)
}

pub fn read_cases() -> Vec<Value> {
    let stdin = std::io::stdin();
    let mut v = Vec::new();
    for line in stdin.lock().lines() {
        let line = line.unwrap();
        let t = line.trim();
        if t.is_empty() {
            continue;
        }
        match serde_json::from_str::<Value>(t) {
            Ok(j) => v.push(j),
            Err(e) => {
                eprintln!("vh: bad case line: {} ({})", t, e);
                std::process::exit(2);
            }
        }
    }
    v
}

/// panics raised inside the code under test (source files of the tree's crates) on threads other than the driver's own: counted by
/// the process-wide panic hook (main.rs).  A panic that a worker of the service catches is still a panic of the service.
pub static LIB_PANICS: std::sync::atomic::AtomicUsize = std::sync::atomic::AtomicUsize::new(0);
pub static LIB_PANIC_FIRST: std::sync::Mutex<String> = std::sync::Mutex::new(String::new());

pub fn lib_panics() -> (usize, String) {
    (LIB_PANICS.load(std::sync::atomic::Ordering::SeqCst), LIB_PANIC_FIRST.lock().unwrap_or_else(|e| e.into_inner()).clone())
}

pub fn emit(v: &Value) {
    let out = std::io::stdout();
    let mut l = out.lock();
    let _ = writeln!(l, "{}", v);
}

/// Wait until the peer has consumed everything we wrote on this unix socket
/// (SIOCOUTQ == 0), so that the next write is guaranteed to be a separate read on the
/// other side.  Gives up after `max` (the peer may have closed).
pub fn drain_barrier<S: AsRawFd>(s: &S, max: Duration) -> bool {
    let fd = s.as_raw_fd();
    let t0 = Instant::now();
    loop {
        let mut q: libc::c_int = 0;
        let r = unsafe { libc::ioctl(fd, libc::TIOCOUTQ, &mut q) };
        if r != 0 || q == 0 {
            return true;
        }
        if t0.elapsed() > max {
            return false;
        }
        std::thread::yield_now();
    }
}

pub fn split_nul(bytes: &[u8]) -> (Vec<Vec<u8>>, Vec<u8>) {
    let mut msgs = Vec::new();
    let mut cur = Vec::new();
    for &b in bytes {
        if b == 0 {
            msgs.push(std::mem::take(&mut cur));
        } else {
            cur.push(b);
        }
    }
    (msgs, cur)
}

pub fn lossy(b: &[u8]) -> String {
    let s = String::from_utf8_lossy(b).to_string();
    if s.len() > 400 {
        format!("{}…(+{} bytes)", &s[..s.char_indices().nth(300).map(|x| x.0).unwrap_or(0)], s.len())
    } else {
        s
    }
}

pub fn tmpdir(tag: &str) -> std::path::PathBuf {
    let base = std::env::var("VERIF_WORK").unwrap_or_else(|_| "/verif/work".into());
    let p = std::path::PathBuf::from(base).join(format!("{}-{}", tag, std::process::id()));
    let _ = std::fs::create_dir_all(&p);
    p
}

/// A TCP port that is free right now (asked from the kernel, not derived from the pid: several checks run side by side).
pub fn free_port(v6: bool) -> u16 {
    let l = if v6 { std::net::TcpListener::bind("[::1]:0") } else { std::net::TcpListener::bind("127.0.0.1:0") };
    match l {
        Ok(l) => l.local_addr().map(|a| a.port()).unwrap_or(0),
        Err(_) => 20000 + (std::process::id() % 20000) as u16,
    }
}

/// Wait until a socket is in the LISTEN state at `address` (unix path, unix:@abstract or tcp:host:port) WITHOUT connecting to
/// it: a probe connection would count as a connection for the server under test.  The kernel's socket tables say so
/// (bind() makes a path visible before listen() makes it connectable).
pub fn wait_listening(address: &str, max: Duration) -> bool {
    let t0 = Instant::now();
    loop {
        let up = if let Some(rest) = address.strip_prefix("unix:") {
            let name = rest.split(';').next().unwrap_or(rest);
            std::fs::read_to_string("/proc/net/unix").map(|t| {
                t.lines().skip(1).any(|l| {
                    let f: Vec<&str> = l.split_whitespace().collect();
                    // Num RefCount Protocol Flags Type St Inode Path ; __SO_ACCEPTCON = 0x10000
                    f.len() >= 8 && f[7] == name && u32::from_str_radix(f[3], 16).map(|x| x & 0x10000 != 0).unwrap_or(false)
                })
            }).unwrap_or(false)
        } else if let Some(rest) = address.strip_prefix("tcp:") {
            let port = rest.rsplit(':').next().and_then(|p| p.parse::<u16>().ok()).unwrap_or(0);
            let listening = |file: &str| std::fs::read_to_string(file).map(|t| {
                t.lines().skip(1).any(|l| {
                    let f: Vec<&str> = l.split_whitespace().collect();
                    f.len() >= 4 && f[3] == "0A" && f[1].rsplit(':').next().and_then(|p| u16::from_str_radix(p, 16).ok()) == Some(port)
                })
            }).unwrap_or(false);
            listening("/proc/net/tcp") || listening("/proc/net/tcp6")
        } else {
            false
        };
        if up {
            return true;
        }
        if t0.elapsed() > max {
            return false;
        }
        std::thread::sleep(Duration::from_millis(1));
    }
}
