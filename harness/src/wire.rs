//! `vh wire` — C17: every value / JSON object enumerated by specs/Wire.tla through the real Serialize and
//! Deserialize implementations of varlink's wire types, all three entry points each way.
use std::collections::HashMap;

use serde::de::DeserializeOwned;
use serde::Serialize;
use serde_json::{json, Value};
use varlink::{GetInterfaceDescriptionReply, Reply, Request, ServiceInfo, StringHashMap, StringHashSet};

use crate::util::*;

fn atom(a: &str, salt: usize) -> Value {
    match a {
        "Jnull" => Value::Null,
        "Jtrue" => json!(true),
        "Jfalse" => json!(false),
        "Jempty" => json!({}),
        "Jint" => [json!(42), json!(i64::MAX), json!(i64::MIN), json!(u64::MAX), json!(0)][salt % 5].clone(),
        "Jstr" => [json!("s\u{e9}\n\"\\"), json!(""), json!("\u{1F600}")][salt % 3].clone(),
        "Jobj" => json!({"k": [1, {"z": null}], "": "e"}),
        "Jnested" => json!({"a": {"b": {"c": [[], {}, [[1.5]]]}}}),
        "Jarr" => json!([1, "x", null]),
        other => json!(other),
    }
}

fn key(k: &str) -> String {
    match k {
        "e-acute" => "\u{e9}".into(),
        "quote" => "q\"uote".into(),
        "backslash" => "back\\slash".into(),
        "newline" => "new\nline\u{0001}".into(),
        "long" => "L".repeat(300),
        other => other.into(),
    }
}

fn strp(s: &str) -> String {
    match s {
        "quote-nonascii" => "q\"\u{e9}\\\n".into(),
        o => o.into(),
    }
}

fn tri(x: &str) -> Option<bool> {
    match x {
        "t" => Some(true),
        "f" => Some(false),
        _ => None,
    }
}

/// serialise three ways; all must agree and equal `want`
fn ser3<T: Serialize>(v: &T, want: &Value) -> Result<String, String> {
    let s = serde_json::to_string(v).map_err(|e| format!("to_string failed: {}", e))?;
    let b = serde_json::to_vec(v).map_err(|e| format!("to_vec failed: {}", e))?;
    let j = serde_json::to_value(v).map_err(|e| format!("to_value failed: {}", e))?;
    let js: Value = serde_json::from_str(&s).map_err(|e| format!("to_string output is not JSON: {} {}", e, s))?;
    let jb: Value = serde_json::from_slice(&b).map_err(|e| format!("to_vec output is not JSON: {}", e))?;
    if &js != want {
        return Err(format!("to_string gives {}, spec says {}", js, want));
    }
    if &jb != want {
        return Err(format!("to_vec gives {}, spec says {}", jb, want));
    }
    if &j != want {
        return Err(format!("to_value gives {}, spec says {}", j, want));
    }
    Ok(s)
}

/// deserialise three ways; all must succeed and equal `want`
fn de3<T: DeserializeOwned + PartialEq + std::fmt::Debug>(text: &str, want: &T) -> Result<(), String> {
    let a: T = serde_json::from_str(text).map_err(|e| format!("from_str failed on {}: {}", text, e))?;
    let b: T = serde_json::from_slice(text.as_bytes()).map_err(|e| format!("from_slice failed on {}: {}", text, e))?;
    let val: Value = serde_json::from_str(text).unwrap();
    let c: T = serde_json::from_value(val).map_err(|e| format!("from_value failed on {}: {}", text, e))?;
    if &a != want {
        return Err(format!("from_str({}) = {:?}, expected {:?}", text, a, want));
    }
    if &b != want {
        return Err(format!("from_slice({}) = {:?}, expected {:?}", text, b, want));
    }
    if &c != want {
        return Err(format!("from_value({}) = {:?}, expected {:?}", text, c, want));
    }
    Ok(())
}

fn obj_of(pairs: &Value, salt: usize) -> Value {
    let mut o = serde_json::Map::new();
    for p in pairs.as_array().unwrap() {
        let k = p[0].as_str().unwrap();
        let v = p[1].as_str().unwrap();
        if v == "absent" {
            continue;
        }
        let jv = if k == "method" || k == "error" { json!(v) } else { atom(v, salt) };
        o.insert(k.to_string(), jv);
    }
    Value::Object(o)
}

fn mk_request(v: &Value, salt: usize) -> Request<'static> {
    Request {
        more: tri(v["more"].as_str().unwrap()),
        oneway: tri(v["oneway"].as_str().unwrap()),
        upgrade: tri(v["upgrade"].as_str().unwrap()),
        method: v["method"].as_str().unwrap().to_string().into(),
        parameters: match v["parameters"].as_str().unwrap() {
            "unset" => None,
            a => Some(atom(a, salt)),
        },
    }
}

fn mk_reply(v: &Value, salt: usize) -> Reply {
    Reply {
        continues: tri(v["continues"].as_str().unwrap()),
        error: match v["error"].as_str().unwrap() {
            "unset" => None,
            e => Some(e.to_string().into()),
        },
        parameters: match v["parameters"].as_str().unwrap() {
            "unset" => None,
            a => Some(atom(a, salt)),
        },
    }
}

fn drop_nulls(v: &Value) -> Value {
    match v {
        Value::Object(o) => Value::Object(o.iter().filter(|(_, x)| !x.is_null()).map(|(k, x)| (k.clone(), x.clone())).collect()),
        o => o.clone(),
    }
}

fn one(case: &Value, salt: usize) -> Result<(), (String, String)> {
    let t = case["t"].as_str().unwrap();
    let e = |tag: &str| { let tag = tag.to_string(); move |d: String| (tag.clone(), d) };
    match t {
        "request" => {
            let v = mk_request(&case["v"], salt);
            let want = obj_of(&case["ser"], salt);
            let text = ser3(&v, &want).map_err(e("ser"))?;
            // strict law: the round trip yields an EQUAL value
            let tag = if case["v"]["parameters"] == "Jnull" { "roundtrip-null-parameters" } else { "roundtrip" };
            de3(&text, &v).map_err(e(tag))?;
        }
        "reply" => {
            let v = mk_reply(&case["v"], salt);
            let want = obj_of(&case["ser"], salt);
            let text = ser3(&v, &want).map_err(e("ser"))?;
            let tag = if case["v"]["parameters"] == "Jnull" { "roundtrip-null-parameters" } else { "roundtrip" };
            de3(&text, &v).map_err(e(tag))?;
        }
        "reqobj" => {
            let o = obj_of(&case["o"], salt);
            let text = o.to_string();
            let want = mk_request(&case["de"], salt);
            de3(&text, &want).map_err(e("de"))?;
            let back = serde_json::to_value(&want).unwrap();
            if drop_nulls(&back) != drop_nulls(&o) {
                return Err(("equiv".into(), format!("{} deserialises and serialises back to {}, not equivalent", o, back)));
            }
        }
        "set" => {
            let keys: Vec<String> = case["v"].as_array().unwrap().iter().map(|k| key(k.as_str().unwrap())).collect();
            let mut s = StringHashSet::new();
            for k in &keys {
                s.insert(k.clone());
            }
            let want: Value = Value::Object(keys.iter().map(|k| (k.clone(), json!({}))).collect());
            let text = ser3(&s, &want).map_err(e("ser"))?;
            de3(&text, &s).map_err(e("roundtrip-set"))?;
        }
        "map" => {
            let mut m: StringHashMap<Value> = HashMap::new();
            for p in case["v"].as_array().unwrap() {
                m.insert(key(p[0].as_str().unwrap()), atom(p[1].as_str().unwrap(), salt));
            }
            let want: Value = Value::Object(m.iter().map(|(k, v)| (k.clone(), v.clone())).collect());
            let text = ser3(&m, &want).map_err(e("ser"))?;
            de3(&text, &m).map_err(e("roundtrip"))?;
        }
        "info" => {
            let v = &case["v"];
            let s = |f: &str| -> std::borrow::Cow<'static, str> { strp(v[f].as_str().unwrap()).into() };
            let si = ServiceInfo { vendor: s("vendor"), product: s("product"), version: s("version"), url: s("url"),
                interfaces: v["interfaces"].as_array().unwrap().iter().map(|x| strp(x.as_str().unwrap()).into()).collect() };
            let want = json!({"vendor": si.vendor, "product": si.product, "version": si.version, "url": si.url, "interfaces": si.interfaces});
            let text = ser3(&si, &want).map_err(e("ser"))?;
            de3(&text, &si).map_err(e("roundtrip"))?;
        }
        "descr" => {
            let d = match case["v"].as_str().unwrap() {
                "unset" => None,
                "" => Some(String::new()),
                _ => Some("# doc \u{e9}\ninterface a.b\n\nmethod M() -> ()\n".to_string()),
            };
            let r = GetInterfaceDescriptionReply { description: d.clone() };
            let want = match &d { None => json!({}), Some(x) => json!({"description": x}) };
            let text = ser3(&r, &want).map_err(e("ser"))?;
            de3(&text, &r).map_err(e("roundtrip"))?;
        }
        other => return Err(("tool".into(), format!("unknown case type {}", other))),
    }
    Ok(())
}

pub fn run(_args: &[String]) {
    let cases = read_cases();
    let mut nfail = 0;
    let mut execs = 0;
    for (i, c) in cases.iter().enumerate() {
        for salt in 0..3 {
            execs += 1;
            if let Err((tag, d)) = one(c, salt + i) {
                nfail += 1;
                emit(&json!({"fail": true, "case": i, "variant": tag, "detail": d, "sig": format!("{}:{}", c["t"].as_str().unwrap(), tag), "input": c}));
                break;
            }
        }
    }
    emit(&json!({"summary": true, "cases": cases.len(), "executions": execs, "failures": nfail}));
}
