//! C16: `vh addr` (address classification + socket-activation decision table, specs/Addr.tla),
//! `vh transport --kind=K` (the same request sequences over every way of reaching a service),
//! helper modes run as child processes: `actprobe`, `actserve`, `stdioserve`.
use std::io::{BufRead, Read, Write};
use std::os::unix::io::{AsRawFd, RawFd};
use std::os::unix::net::UnixListener;
use std::os::unix::process::CommandExt;
use std::process::{Command, Stdio};
use std::sync::{Arc, Mutex};
use std::time::Duration;

use serde_json::{json, Value};
use varlink::{Connection, ConnectionHandler, ErrorKind, Listener};

use crate::conn::*;
use crate::connref::{check_common, sig_of, stream_of};
use crate::svc::{self, SharedLog};
use crate::util::*;

fn self_exe() -> String {
    std::env::current_exe().unwrap().display().to_string()
}

fn concrete_address(a: &Value, dir: &std::path::Path, n: usize) -> Option<String> {
    let params = a["params"].as_bool().unwrap();
    let p = if params { ";mode=0600;x=y" } else { "" };
    Some(match a["scheme"].as_str().unwrap() {
        "tcp" => {
            if params {
                return None; // parameters are a unix-socket notion; tcp with ';' is a don't-care
            }
            "tcp:127.0.0.1:0".to_string()
        }
        "unix" => format!("unix:{}/s{}{}", dir.display(), n, p),
        "unixabs" => format!("unix:@verif-addr-{}-{}{}", std::process::id(), n, p),
        "TCP-upper" => format!("TCP:127.0.0.1:1{}", p),
        "Unix-upper" => format!("Unix:{}/u{}{}", dir.display(), n, p),
        "tcpd" => format!("tcpd:127.0.0.1:1{}", p),
        "unixs" => format!("unixs:{}/x{}{}", dir.display(), n, p),
        "nocolon-tcp" => format!("tcp{}", p),
        "nocolon-unix" => format!("unix{}", p),
        "empty" => p.to_string(),
        "garbage" => format!("%%\u{e9}://{}", p),
        "colon-only" => format!(":{}", p),
        "space-before" => format!(" unix:{}/y{}{}", dir.display(), n, p),
        s => panic!("scheme {}", s),
    })
}

fn is_invalid<T>(r: &varlink::Result<T>) -> bool {
    matches!(r, Err(e) if *e.kind() == ErrorKind::InvalidAddress)
}

pub fn run_addr(_args: &[String]) {
    let cases = read_cases();
    let dir = tmpdir("addr");
    let mut nfail = 0;
    let mut execs = 0;
    for (i, c) in cases.iter().enumerate() {
        let mut fail = |variant: &str, d: String| {
            nfail += 1;
            emit(&json!({"fail": true, "case": i, "variant": variant, "detail": d, "sig": format!("{}", c), "input": c}));
        };
        match c["t"].as_str().unwrap() {
            "addr" => {
                let addr = match concrete_address(&c["a"], &dir, i) {
                    Some(a) => a,
                    None => continue,
                };
                let class = c["class"].as_str().unwrap();
                execs += 1;
                // environment of this process carries no activation variables
                let l = Listener::new(&addr);
                if class == "invalid" {
                    if !is_invalid(&l) {
                        fail("server", format!("Listener::new({:?}) = {:?}, expected an invalid-address error", addr, l.as_ref().map(|_| "Ok").map_err(|e| format!("{:?}", e.kind()))));
                    }
                    let cn = varlink::varlink_connect(&addr);
                    if !is_invalid(&cn) {
                        fail("client", format!("varlink_connect({:?}) = {:?}, expected an invalid-address error", addr, cn.as_ref().map(|_| "Ok").map_err(|e| format!("{:?}", e.kind()))));
                    }
                    let cw = Connection::with_address(&addr);
                    if !is_invalid(&cw) {
                        fail("client", format!("Connection::with_address({:?}) is not an invalid-address error", addr));
                    }
                    let log: SharedLog = Default::default();
                    let r = varlink::listen(svc::standard_service(log), &addr, &varlink::ListenConfig { idle_timeout: 1, ..Default::default() });
                    if !is_invalid(&r) {
                        fail("server", format!("listen({:?}) = {:?}, expected an invalid-address error", addr, r.map_err(|e| format!("{:?}", e.kind()))));
                    }
                    continue;
                }
                let l = match l {
                    Ok(l) => l,
                    Err(e) => { fail("server", format!("Listener::new({:?}) failed: {:?}", addr, e.kind())); continue; }
                };
                // where does it really listen?
                let connect_addr = match &l {
                    Listener::TCP(Some(t), act) => { if *act { fail("server", "listener claims to be socket-activated".into()); } format!("tcp:{}", t.local_addr().unwrap()) }
                    Listener::UNIX(Some(_), act) => { if *act { fail("server", "listener claims to be socket-activated".into()); } addr.clone() }
                    _ => { fail("server", "listener without a socket".into()); continue; }
                };
                if class == "unixPath" {
                    let stripped = addr["unix:".len()..].split(';').next().unwrap().to_string();
                    if !std::path::Path::new(&stripped).exists() {
                        fail("server", format!("socket file {:?} was not created (parameters after ';' must be ignored)", stripped));
                    }
                }
                match varlink::varlink_connect(&connect_addr) {
                    Ok(_) => {}
                    Err(e) => fail("client", format!("varlink_connect({:?}) to the listener just created failed: {:?}", connect_addr, e.kind())),
                }
                drop(l);
                if class == "unixPath" {
                    let stripped = addr["unix:".len()..].split(';').next().unwrap().to_string();
                    if std::path::Path::new(&stripped).exists() {
                        fail("server", format!("socket file {:?} still exists after the listener was dropped", stripped));
                    }
                    // the same address again, this time with a socket file left behind by an instance that did not clean up
                    // (killed): with or without parameters the server takes the path over
                    let stale = UnixListener::bind(&stripped);
                    drop(stale); // std does not unlink: the file stays
                    if !std::path::Path::new(&stripped).exists() {
                        fail("harness", format!("could not leave a stale socket file at {:?}", stripped));
                    }
                    match Listener::new(&addr) {
                        Ok(l2) => {
                            if let Err(e) = varlink::varlink_connect(&connect_addr) {
                                fail("client", format!("varlink_connect({:?}) to the listener that replaced a stale socket file failed: {:?}", connect_addr, e.kind()));
                            }
                            drop(l2);
                        }
                        Err(e) => fail("server", format!("Listener::new({:?}) with a stale socket file at the path failed: {:?}", addr, e.kind())),
                    }
                }
            }
            "env" => {
                execs += 1;
                let e = &c["e"];
                let want_fd = c["fd"].as_u64().unwrap() as i32;
                // three listening sockets to be passed as descriptors 3, 4, 5
                // every third environment row is probed with tcp sockets and a tcp address (the rules do not depend on the scheme)
                let tcp = i % 3 == 2;
                let ls: Vec<UnixListener> = if tcp { Vec::new() } else { (0..3).map(|k| UnixListener::bind(dir.join(format!("act{}-{}", i, k))).unwrap()).collect() };
                let tls: Vec<std::net::TcpListener> = if tcp { (0..3).map(|_| std::net::TcpListener::bind("127.0.0.1:0").unwrap()).collect() } else { Vec::new() };
                let fds: Vec<RawFd> = if tcp { tls.iter().map(|l| l.as_raw_fd()).collect() } else { ls.iter().map(|l| l.as_raw_fd()).collect() };
                let probe_addr = if tcp { format!("tcp:127.0.0.1:{}", free_port(false)) } else { format!("unix:{}/probe{}", dir.display(), i) };
                let mut script = String::new();
                match e["pid"].as_str().unwrap() {
                    "own" => script.push_str("LISTEN_PID=$$; export LISTEN_PID; "),
                    "other" => script.push_str("LISTEN_PID=1; export LISTEN_PID; "),
                    "garbage" => script.push_str("LISTEN_PID=xyz; export LISTEN_PID; "),
                    _ => {}
                }
                script.push_str(&format!("exec {} actprobe {}", self_exe(), probe_addr));
                let mut cmd = Command::new("sh");
                cmd.arg("-c").arg(&script).env_remove("LISTEN_PID").env_remove("LISTEN_FDS").env_remove("LISTEN_FDNAMES");
                match e["fds"].as_str().unwrap() {
                    "absent" => {}
                    "garbage" => { cmd.env("LISTEN_FDS", "abc"); }
                    n => { cmd.env("LISTEN_FDS", n); }
                }
                match e["names"].as_str().unwrap() {
                    "absent" => {}
                    "none-varlink" => { cmd.env("LISTEN_FDNAMES", "a:b:c"); }
                    "varlink-first" => { cmd.env("LISTEN_FDNAMES", "varlink:x:y"); }
                    "varlink-second" => { cmd.env("LISTEN_FDNAMES", "x:varlink:y"); }
                    "varlink-third" => { cmd.env("LISTEN_FDNAMES", "x:y:varlink"); }
                    _ => { cmd.env("LISTEN_FDNAMES", ""); }
                }
                cmd.stdin(Stdio::null()).stdout(Stdio::piped()).stderr(Stdio::piped());
                let fds2 = fds.clone();
                unsafe {
                    cmd.pre_exec(move || {
                        // move the three sockets out of the way, then onto 3, 4, 5 (dup2 clears close-on-exec)
                        let hi: Vec<RawFd> = fds2.iter().map(|f| libc::fcntl(*f, libc::F_DUPFD, 100)).collect();
                        for (k, h) in hi.iter().enumerate() {
                            libc::dup2(*h, 3 + k as RawFd);
                            libc::close(*h);
                        }
                        Ok(())
                    });
                }
                let out = match cmd.output() {
                    Ok(o) => o,
                    Err(er) => { fail("probe", format!("cannot run the probe: {}", er)); continue; }
                };
                let line = String::from_utf8_lossy(&out.stdout);
                let v: Value = match serde_json::from_str(line.trim()) {
                    Ok(v) => v,
                    Err(_) => { fail("probe", format!("probe output {:?} stderr {:?}", line, String::from_utf8_lossy(&out.stderr))); continue; }
                };
                let got_fd = if v["activated"] == json!(true) { v["fd"].as_i64().unwrap() as i32 } else { 0 };
                if got_fd != want_fd {
                    fail("activation", format!("environment {}: server {} ; the activation rules say {}", e,
                        if got_fd == 0 { "bound its own address".to_string() } else { format!("adopted descriptor {}", got_fd) },
                        if want_fd == 0 { "no activation".to_string() } else { format!("adopt descriptor {}", want_fd) }));
                    continue;
                }
                if want_fd != 0 {
                    let want_path = if tcp { format!("port {}", tls[(want_fd - 3) as usize].local_addr().unwrap().port()) } else { dir.join(format!("act{}-{}", i, want_fd - 3)).display().to_string() };
                    if v["local"] != json!(want_path) {
                        fail("activation", format!("adopted socket is {:?}, expected the one passed as descriptor {} ({})", v["local"], want_fd, want_path));
                    }
                    if v["bound_exists"] == json!(true) {
                        fail("activation", "the address was bound although a descriptor was adopted".into());
                    }
                }
            }
            _ => {}
        }
    }
    let _ = std::fs::remove_dir_all(&dir);
    emit(&json!({"summary": true, "cases": cases.len(), "executions": execs, "failures": nfail}));
}

/// child: which listener does a server get in this environment?
pub fn run_actprobe(args: &[String]) {
    let addr = &args[0];
    let path = addr.strip_prefix("unix:").unwrap_or("/nonexistent-not-a-unix-address").to_string();
    let r = Listener::new(addr);
    let v = match &r {
        Ok(Listener::UNIX(Some(l), act)) => json!({"ok": true, "activated": act, "fd": l.as_raw_fd(),
            "local": l.local_addr().ok().and_then(|a| a.as_pathname().map(|p| p.display().to_string())), "bound_exists": std::path::Path::new(&path).exists()}),
        Ok(Listener::TCP(Some(l), act)) => json!({"ok": true, "activated": act, "fd": l.as_raw_fd(),
            "local": l.local_addr().ok().map(|a| format!("port {}", a.port())), "bound_exists": false}),
        Ok(_) => json!({"ok": true, "activated": false, "fd": -1}),
        Err(e) => json!({"ok": false, "error": format!("{:?}", e.kind()), "activated": false}),
    };
    println!("{}", v);
    // do not run Drop for an adopted listener twice; just leave
    std::mem::forget(r);
}

fn same_file(a: i32, b: i32) -> bool {
    let mut sa: libc::stat = unsafe { std::mem::zeroed() };
    let mut sb: libc::stat = unsafe { std::mem::zeroed() };
    unsafe {
        libc::fstat(a, &mut sa);
        libc::fstat(b, &mut sb);
    }
    sa.st_ino == sb.st_ino && sa.st_dev == sb.st_dev
}

/// child: a socket-activated standard service that first dumps what it was started with
pub fn run_actserve(args: &[String]) {
    let addr = args.iter().find_map(|a| a.strip_prefix("--varlink=")).unwrap_or("").to_string();
    let dump = args.iter().find_map(|a| a.strip_prefix("--dump=")).map(String::from);
    if let Some(d) = dump {
        let mut env = serde_json::Map::new();
        for k in ["LISTEN_FDS", "LISTEN_FDNAMES", "LISTEN_PID", "VARLINK_ADDRESS"] {
            env.insert(k.into(), std::env::var(k).map(Value::String).unwrap_or(Value::Null));
        }
        // descriptor 3: a listening unix socket? bound where?
        let mut accept: libc::c_int = 0;
        let mut len = std::mem::size_of::<libc::c_int>() as libc::socklen_t;
        let r = unsafe { libc::getsockopt(3, libc::SOL_SOCKET, libc::SO_ACCEPTCONN, &mut accept as *mut _ as *mut libc::c_void, &mut len) };
        let mut sa: libc::sockaddr_un = unsafe { std::mem::zeroed() };
        let mut sl = std::mem::size_of::<libc::sockaddr_un>() as libc::socklen_t;
        let r2 = unsafe { libc::getsockname(3, &mut sa as *mut _ as *mut libc::sockaddr, &mut sl) };
        let path: String = if r2 == 0 { sa.sun_path.iter().take_while(|c| **c != 0).map(|c| *c as u8 as char).collect() } else { String::new() };
        let v = json!({"env": env, "pid": std::process::id(), "fd3_is_socket": r == 0, "fd3_listening": accept != 0, "fd3_path": path,
                       "stdout_is_stderr": same_file(1, 2)});
        let _ = std::fs::write(d, v.to_string());
    }
    let log: SharedLog = Default::default();
    let cfg = if args.iter().any(|a| a == "--no-timeout") { varlink::ListenConfig::default() } else { varlink::ListenConfig { idle_timeout: 2, ..Default::default() } };
    let _ = varlink::listen(svc::standard_service(log), &addr, &cfg);
}

/// child: the standard service over stdin / stdout (the far end of a bridge command)
pub fn run_stdioserve(_args: &[String]) {
    let log: SharedLog = Default::default();
    let service = svc::standard_service(log);
    let stdin = std::io::stdin();
    let mut rd = std::io::BufReader::new(stdin.lock());
    let stdout = std::io::stdout();
    let mut wr = stdout.lock();
    let mut iface: Option<String> = None;
    let mut unread: Vec<u8> = Vec::new();
    loop {
        let res = {
            let mut r = std::io::Cursor::new(std::mem::take(&mut unread)).chain(&mut rd);
            service.handle(&mut r, &mut wr, iface.clone())
        };
        match res {
            Ok((rest, i)) => {
                iface = i;
                if iface.is_some() {
                    unread = rest;
                }
                let _ = wr.flush();
                if unread.is_empty() {
                    match rd.fill_buf() {
                        Ok([]) | Err(_) => break,
                        _ => {}
                    }
                }
            }
            Err(_) => break,
        }
    }
}

/// raw request/reply exchange over the reader / writer of a `Connection`
fn exchange(conn: &Arc<std::sync::RwLock<Connection>>, stream: &[u8], sentinel: &[u8], stok: &str) -> Obs {
    let mut obs = Obs::default();
    let (mut r, mut w) = {
        let mut c = conn.write().unwrap();
        match (c.reader.take(), c.writer.take()) {
            (Some(r), Some(w)) => (r, w),
            (r, w) => {
                // a connection that was just made must hold both halves
                obs.end = "unusable".into();
                obs.note = format!("the new connection has {} reader and {} writer", if r.is_some() { "a" } else { "no" }, if w.is_some() { "a" } else { "no" });
                return obs;
            }
        }
    };
    let _ = w.write_all(stream);
    let _ = w.write_all(sentinel);
    let _ = w.flush();
    // read until the sentinel's reply or EOF
    let mut all: Vec<u8> = Vec::new();
    let needle = stok.as_bytes();
    let mut buf = [0u8; 65536];
    let t0 = std::time::Instant::now();
    obs.end = "hang".into();
    loop {
        match r.read(&mut buf) {
            Ok(0) => { obs.end = "closed".into(); break; }
            Ok(n) => {
                all.extend_from_slice(&buf[..n]);
                if all.ends_with(&[0]) && all.windows(needle.len()).any(|x| x == needle) { obs.end = "open".into(); break; }
            }
            Err(e) => {
                match e.kind() {
                    std::io::ErrorKind::WouldBlock | std::io::ErrorKind::TimedOut => {}
                    _ => { obs.end = "closed".into(); }
                }
                break;
            }
        }
        if t0.elapsed() > Duration::from_secs(6) { break; }
    }
    obs.out = all;
    obs
}

pub fn run_transport(args: &[String]) {
    // own session: on a hang everything we spawned can be killed with us
    unsafe { libc::setsid(); }
    let kind = args.iter().find_map(|a| a.strip_prefix("--kind=")).unwrap_or("unix").to_string();
    let cases = read_cases();
    let dir = tmpdir(&format!("transport-{}", kind));
    let fails: Arc<Mutex<Vec<Value>>> = Default::default();
    let mut execs = 0usize;
    // "<kind>": raw client (std sockets) against varlink::listen; "<kind>-lib": the library's own client (Connection::with_address)
    // against varlink::listen, so that both sides parse the address form
    let lib_client = kind.ends_with("-lib");
    let base = kind.trim_end_matches("-lib").to_string();
    let direct = matches!(base.as_str(), "unix" | "unix-mode" | "abstract" | "tcp") && !lib_client;
    let own_server = direct || lib_client;
    let port = free_port(base == "tcp6");
    let address = match base.as_str() {
        "unix" | "activated-nonblocking" => format!("unix:{}/s", dir.display()),
        "unix-mode" => format!("unix:{}/s;mode=0666", dir.display()),
        "abstract" => format!("unix:@verif-transport-{}", std::process::id()),
        "tcp6" => format!("tcp:[::1]:{}", port),
        "tcp-localhost" => format!("tcp:localhost:{}", port),
        _ => format!("tcp:127.0.0.1:{}", port),
    };
    if base == "tcp6" && std::net::TcpListener::bind("[::1]:0").is_err() {
        // no IPv6 loopback on this machine: nothing to compare
        emit(&json!({"summary": true, "cases": 0, "executions": 0, "failures": 0, "skipped": "no IPv6 loopback"}));
        return;
    }
    if base == "tcp-localhost" {
        use std::net::ToSocketAddrs;
        if ("localhost", 0).to_socket_addrs().map(|mut a| a.next().is_none()).unwrap_or(true) {
            emit(&json!({"summary": true, "cases": 0, "executions": 0, "failures": 0, "skipped": "localhost does not resolve"}));
            return;
        }
    }
    // the harness as activator: a NON-BLOCKING listening socket handed over as descriptor 3 (systemd creates them that way), the
    // service runs listen() with the default configuration (no idle time-out, no stop flag)
    let mut activated_child: Option<std::process::Child> = None;
    if kind == "activated-nonblocking" {
        use std::os::unix::process::CommandExt;
        let l = UnixListener::bind(dir.join("s")).expect("bind");
        l.set_nonblocking(true).expect("nonblocking");
        let fd = l.as_raw_fd();
        let mut cmd = Command::new("sh");
        cmd.arg("-c").arg(format!("LISTEN_PID=$$; export LISTEN_PID; exec {} actserve --varlink={} --no-timeout", self_exe(), address))
            .env("LISTEN_FDS", "1").env("LISTEN_FDNAMES", "varlink").stdin(Stdio::null()).stdout(Stdio::null()).stderr(Stdio::null());
        unsafe {
            cmd.pre_exec(move || {
                let hi = libc::fcntl(fd, libc::F_DUPFD, 100);
                libc::dup2(hi, 3);
                libc::close(hi);
                Ok(())
            });
        }
        activated_child = cmd.spawn().ok();
        drop(l);
        std::thread::sleep(Duration::from_millis(150));
    }
    let mut server = if own_server { Some(Server::start(&address, 2, 8)) } else { None };
    // watchdog for calls that never return
    let progress = Arc::new(std::sync::atomic::AtomicUsize::new(0));
    {
        let progress = progress.clone();
        let kind = kind.clone();
        std::thread::spawn(move || {
            let mut last = 0;
            let mut stale = 0;
            loop {
                std::thread::sleep(Duration::from_secs(1));
                let p = progress.load(std::sync::atomic::Ordering::SeqCst);
                if p == usize::MAX { return; }
                if p == last { stale += 1; } else { stale = 0; last = p; }
                if stale >= 12 {
                    emit(&json!({"fail": true, "case": p, "variant": format!("{} hang", kind), "sig": format!("{} hang", kind),
                        "detail": format!("reaching the service through transport '{}' did not return within 12 s (case {})", kind, p)}));
                    emit(&json!({"summary": true, "cases": 0, "executions": p, "failures": 1}));
                    unsafe { libc::kill(0, libc::SIGKILL); }
                }
            }
        });
    }
    let mut fd3_variants = (0usize, 0usize); // with_activate: listener lands on descriptor 3 / elsewhere
    for (i, case) in cases.iter().enumerate() {
        progress.store(i + 1, std::sync::atomic::Ordering::SeqCst);
        let reqs = case["reqs"].as_array().unwrap();
        let end = case["end"].as_str().unwrap();
        let at = case["at"].as_u64().unwrap() as usize;
        if !direct && end == "upgraded" {
            continue; // upgraded sessions over spawned transports are exercised by C18
        }
        let salt = format!("x{}{}", i, &kind[..1]);
        let mut creqs: Vec<CReq> = reqs.iter().enumerate().map(|(k, r)| concretise(r, k + 1, &salt, 0)).collect();
        let stream = stream_of(&creqs);
        let stok = format!("SENTINEL{}", salt);
        let mut sentinel = serde_json::to_vec(&json!({"method": "org.example.gen.Ping", "parameters": {"ping": stok}})).unwrap();
        sentinel.push(0);
        execs += 1;
        let mut out_items = case["out"].clone();
        let mut results = case["results"].clone();
        let res: Result<(), String> = (|| {
            let obs = if direct {
                let up_tok = if end == "upgraded" { Some(creqs[at - 1].tok.clone()) } else { None };
                run_socket(&address, &server.as_ref().unwrap().log, &[stream.clone()], if end == "upgraded" { None } else { Some(&sentinel) }, &stok, up_tok.as_deref())
            } else {
                if kind == "activated-nonblocking" {
                    // every case is one connection; in between nothing is pending on the inherited socket
                    std::thread::sleep(Duration::from_millis(if i % 8 == 0 { 120 } else { 2 }));
                    let dummy: SharedLog = Default::default();
                    let o = run_socket(&address, &dummy, &[stream.clone()], Some(&sentinel), &stok, None);
                    if o.end == "connect-failed" {
                        return Err(format!("the activated service (non-blocking inherited socket, default configuration) no longer accepts connections: {}", o.note));
                    }
                    if end == "open" {
                        creqs.push(CReq { kind: "GenOk".into(), tok: stok.clone(), bytes: sentinel[..sentinel.len() - 1].to_vec(), method: "org.example.gen.Ping".into(), more: false, oneway: false, script: vec![], raw_full: None });
                        out_items.as_array_mut().unwrap().push(json!({"req": creqs.len(), "cont": false, "err": "", "arg": "pong"}));
                        results.as_array_mut().unwrap().push(json!([]));
                    }
                    let exp = Expect { creqs: &creqs, out: &out_items, end, at, results: &results };
                    check_replies(&exp, &o.out, false)?;
                    return Ok(());
                }
                let conn = if lib_client {
                    Connection::with_address(&address).map_err(|e| format!("Connection::with_address({}) failed: {:?}", address, e.kind()))?
                } else if kind == "activate" {
                    // the listening socket of with_activate gets the lowest free descriptor: make that 3 for one half of the
                    // cases and something else for the other half (two different code paths hand it to the child as 3)
                    let fd3_open = unsafe { libc::fcntl(3, libc::F_GETFD) } != -1;
                    let _occupy = if i % 2 == 1 && !fd3_open { std::fs::File::open("/dev/null").ok() } else { None };
                    let fd3_taken = unsafe { libc::fcntl(3, libc::F_GETFD) } != -1;
                    if fd3_taken { fd3_variants.1 += 1; } else { fd3_variants.0 += 1; }
                    let dump = dir.join(format!("dump{}", i));
                    let c = Connection::with_activate(&format!("{} actserve --varlink=$VARLINK_ADDRESS --dump={}", self_exe(), dump.display()))
                        .map_err(|e| format!("with_activate failed: {:?}", e.kind()))?;
                    // what the activated service saw
                    let t0 = std::time::Instant::now();
                    while !dump.exists() && t0.elapsed() < Duration::from_secs(5) { std::thread::sleep(Duration::from_millis(2)); }
                    std::thread::sleep(Duration::from_millis(5));
                    let d: Value = serde_json::from_str(&std::fs::read_to_string(&dump).unwrap_or_default()).map_err(|_| "the activated service did not start (no dump)".to_string())?;
                    let env = &d["env"];
                    let addr_now = c.read().unwrap().address();
                    if env["LISTEN_FDS"] != "1" || env["LISTEN_FDNAMES"] != "varlink" || env["LISTEN_PID"] != json!(d["pid"].to_string())
                        || env["VARLINK_ADDRESS"] != json!(addr_now) || d["fd3_listening"] != true
                        || json!(format!("unix:{}", d["fd3_path"].as_str().unwrap_or(""))) != json!(addr_now) {
                        return Err(format!("socket-activated service was started with {} (connection address {}); expected LISTEN_FDS=1, LISTEN_FDNAMES=varlink, LISTEN_PID=its pid, VARLINK_ADDRESS=the address, descriptor 3 = that listening socket", d, addr_now));
                    }
                    c
                } else {
                    Connection::with_bridge(&format!("{} stdioserve", self_exe())).map_err(|e| format!("with_bridge failed: {:?}", e.kind()))?
                };
                let o = exchange(&conn, &stream, &sentinel, &stok);
                // reap the child
                let child = conn.write().unwrap().child.take();
                drop(conn);
                if let Some(mut ch) = child {
                    let _ = ch.kill();
                    let _ = ch.wait();
                }
                o
            };
            if end == "open" {
                creqs.push(CReq { kind: "GenOk".into(), tok: stok.clone(), bytes: sentinel[..sentinel.len() - 1].to_vec(), method: "org.example.gen.Ping".into(), more: false, oneway: false, script: vec![], raw_full: None });
                out_items.as_array_mut().unwrap().push(json!({"req": creqs.len(), "cont": false, "err": "", "arg": "pong"}));
                results.as_array_mut().unwrap().push(json!([]));
            }
            let exp = Expect { creqs: &creqs, out: &out_items, end, at, results: &results };
            if direct {
                check_common(&exp, &obs, &server.as_ref().unwrap().log, false, "whole")
            } else {
                if obs.end == "unusable" {
                    return Err(format!("{} over {}", obs.note, kind));
                }
                if obs.end == "hang" {
                    return Err(format!("no complete reply stream within 6 s over {}", kind));
                }
                check_replies(&exp, &obs.out, false)?;
                if obs.end != end {
                    return Err(format!("connection state: expected {}, observed {}", end, obs.end));
                }
                Ok(())
            }
        })();
        if let Err(d) = res {
            fails.lock().unwrap().push(json!({"fail": true, "case": i, "variant": kind, "detail": format!("[{}] {}", kind, d), "sig": format!("{} {}", kind, sig_of(&case["reqs"])), "input": case}));
            if fails.lock().unwrap().len() > 30 { break; }
        }
    }
    progress.store(usize::MAX, std::sync::atomic::Ordering::SeqCst);
    if let Some(mut ch) = activated_child.take() {
        let _ = ch.kill();
        let _ = ch.wait();
    }
    if let Some(s) = server.as_mut() { s.stop(); }
    let _ = std::fs::remove_dir_all(&dir);
    let fs = fails.lock().unwrap();
    for f in fs.iter() { emit(f); }
    emit(&json!({"summary": true, "cases": cases.len(), "executions": execs, "failures": fs.len(),
                 "listener_on_fd3": fd3_variants.0, "listener_elsewhere": fd3_variants.1}));
}
