//! `vh pool` — forced-schedule replay of specs/Pool.tla behaviours on the real ThreadPool
//! (through the cfg(varlink_rust_verif) probes: every step of the pool is a gate that blocks until the
//! replayer releases it, so exactly the interleaving TLC chose is executed), and `vh pooltrace`: free-running
//! schedules whose probe log is written as a trace for Trace_Pool.tla.
use std::collections::{HashMap, HashSet};
use std::sync::{Arc, Condvar, Mutex};
use std::time::{Duration, Instant};

use serde_json::{json, Value};
use varlink::verif;

use crate::util::*;

#[derive(Default)]
struct St {
    waiting: HashSet<(String, usize)>,
    released: HashSet<(String, usize)>,
    log: Vec<(String, usize, usize, usize)>,
    free_run: bool,
    job_release: HashSet<usize>,
    job_crash: HashSet<usize>,
    gated: bool,
}

#[derive(Clone, Default)]
pub struct Ctl {
    st: Arc<(Mutex<St>, Condvar)>,
}

const STEP_TIMEOUT: Duration = Duration::from_secs(3);

impl Ctl {
    fn probe(&self, ev: &'static str, who: usize, a: usize, b: usize) {
        let (m, cv) = &*self.st;
        let mut st = m.lock().unwrap();
        if ev.starts_with("gate_") {
            if !st.gated || st.free_run {
                return;
            }
            let key = (ev.to_string(), who);
            st.waiting.insert(key.clone());
            cv.notify_all();
            while !st.released.contains(&key) && !st.free_run {
                st = cv.wait(st).unwrap();
            }
            st.released.remove(&key);
            st.waiting.remove(&key);
        } else {
            st.log.push((ev.to_string(), who, a, b));
            cv.notify_all();
        }
    }
    fn log_ev(&self, ev: &str, who: usize, a: usize, b: usize) {
        let (m, cv) = &*self.st;
        m.lock().unwrap().log.push((ev.to_string(), who, a, b));
        cv.notify_all();
    }
    /// wait until a thread is parked at gate (ev, who)
    fn wait_parked(&self, ev: &str, who: usize) -> bool {
        let (m, cv) = &*self.st;
        let mut st = m.lock().unwrap();
        let key = (ev.to_string(), who);
        let t0 = Instant::now();
        while !st.waiting.contains(&key) {
            let left = STEP_TIMEOUT.checked_sub(t0.elapsed());
            match left {
                None => return false,
                Some(l) => st = cv.wait_timeout(st, l).unwrap().0,
            }
        }
        true
    }
    fn release(&self, ev: &str, who: usize) {
        let (m, cv) = &*self.st;
        m.lock().unwrap().released.insert((ev.to_string(), who));
        cv.notify_all();
    }
    /// wait for the first log entry at index >= from matching (ev, who); returns (index, a, b)
    fn wait_log(&self, from: usize, ev: &str, who: Option<usize>) -> Option<(usize, usize, usize, usize)> {
        let (m, cv) = &*self.st;
        let mut st = m.lock().unwrap();
        let t0 = Instant::now();
        loop {
            for i in from..st.log.len() {
                let e = &st.log[i];
                if e.0 == ev && who.map(|w| w == e.1).unwrap_or(true) {
                    return Some((i, e.1, e.2, e.3));
                }
            }
            let left = STEP_TIMEOUT.checked_sub(t0.elapsed())?;
            st = cv.wait_timeout(st, left).unwrap().0;
        }
    }
    fn log_len(&self) -> usize {
        self.st.0.lock().unwrap().log.len()
    }
    fn release_job(&self, j: usize) {
        let (m, cv) = &*self.st;
        m.lock().unwrap().job_release.insert(j);
        cv.notify_all();
    }
    fn crash_job(&self, j: usize) {
        self.st.0.lock().unwrap().job_crash.insert(j);
    }
    fn job_crashes(&self, j: usize) -> bool {
        self.st.0.lock().unwrap().job_crash.contains(&j)
    }
    fn wait_job_released(&self, j: usize) {
        let (m, cv) = &*self.st;
        let mut st = m.lock().unwrap();
        while !st.job_release.contains(&j) && !st.free_run {
            st = cv.wait(st).unwrap();
        }
    }
    fn free_run(&self) {
        let (m, cv) = &*self.st;
        m.lock().unwrap().free_run = true;
        cv.notify_all();
    }
    fn take_log(&self) -> Vec<(String, usize, usize, usize)> {
        self.st.0.lock().unwrap().log.clone()
    }
}

fn install(ctl: &Ctl, gated: bool) {
    ctl.st.0.lock().unwrap().gated = gated;
    let c = ctl.clone();
    verif::set_probe(Some(Arc::new(move |ev, who, a, b| c.probe(ev, who, a, b))));
}

/// Replay one TLC behaviour.  Returns Err(description) on the first divergence.
fn replay_one(case: &Value) -> Result<usize, String> {
    let initial = case["initial"].as_u64().unwrap() as usize;
    let max = case["max"].as_u64().unwrap() as usize;
    let njobs = case["njobs"].as_u64().unwrap() as usize;
    let h = case["h"].as_array().unwrap();
    let ctl = Ctl::default();
    install(&ctl, true);
    let running = Arc::new(Mutex::new(HashSet::<usize>::new()));
    let max_running = Arc::new(Mutex::new(0usize));
    // acceptor thread: creates the pool, submits the jobs one after the other, then drops the pool
    let acc = {
        let ctl = ctl.clone();
        let running = running.clone();
        let max_running = max_running.clone();
        std::thread::spawn(move || {
            let mut pool = verif::PoolHandle::new(initial, max);
            for j in 1..=njobs {
                let ctl2 = ctl.clone();
                let running = running.clone();
                let max_running = max_running.clone();
                pool.execute(move || {
                    {
                        let mut r = running.lock().unwrap();
                        r.insert(j);
                        let mut m = max_running.lock().unwrap();
                        if r.len() > *m {
                            *m = r.len();
                        }
                    }
                    ctl2.log_ev("job_start", verif::wid(), j, 0);
                    ctl2.wait_job_released(j);
                    running.lock().unwrap().remove(&j);
                    ctl2.log_ev("job_end", verif::wid(), j, 0);
                    if ctl2.job_crashes(j) {
                        // the model's EnvCrash: this connection handler ends by panicking
                        panic!("verif: handler of job {} panics (model action crash)", j);
                    }
                });
            }
            drop(pool);
        })
    };
    let mut wjob: HashMap<usize, usize> = HashMap::new();
    let mut steps = 0usize;
    let mut cur_workers = initial;
    let res: Result<(), String> = (|| {
        // initial workers reach their first gate
        for w in 1..=initial {
            if !ctl.wait_parked("gate_w_recv", w) {
                return Err(format!("initial worker {} never reached its receive step", w));
            }
        }
        for (k, a) in h.iter().enumerate() {
            let name = a["a"].as_str().unwrap();
            let w = a["w"].as_u64().unwrap() as usize;
            let want_workers = a["workers"].as_u64().unwrap() as usize;
            let want_ctr = a["ctr"].as_u64().unwrap() as usize;
            let want_running = a["running"].as_u64().unwrap() as usize;
            let from = ctl.log_len();
            let ctx = |what: String| format!("step {} ({} w={}): {}", k + 1, name, w, what);
            steps += 1;
            match name {
                "acc_count" => {
                    if !ctl.wait_parked("gate_acc_count", 0) { return Err(ctx("acceptor did not reach execute()".into())); }
                    ctl.release("gate_acc_count", 0);
                    // the next thing the acceptor does must be counting the job
                    if !ctl.wait_parked("gate_acc_send", 0) { return Err(ctx("acceptor did not reach the send step".into())); }
                    match ctl.wait_log(from, "acc_count", None) {
                        None => return Err(ctx("the job was not counted when it was queued".into())),
                        Some((_, _, ctr, workers)) => {
                            if ctr != want_ctr || workers != want_workers { return Err(ctx(format!("counter={} workers={}, model says counter={} workers={}", ctr, workers, want_ctr, want_workers))); }
                        }
                    }
                }
                "acc_send" => {
                    ctl.release("gate_acc_send", 0);
                    if ctl.wait_log(from, "acc_send", None).is_none() { return Err(ctx("job not sent".into())); }
                    if !ctl.wait_parked("gate_acc_decide", 0) { return Err(ctx("acceptor did not reach the grow decision".into())); }
                }
                "acc_decide" => {
                    ctl.release("gate_acc_decide", 0);
                    match ctl.wait_log(from, "acc_decide", None) {
                        None => return Err(ctx("no grow decision".into())),
                        Some((_, _, ctr, workers)) => {
                            if workers != want_workers { return Err(ctx(format!("pool has {} workers after the decision, model says {} (counter {} / model {}, max {})", workers, want_workers, ctr, want_ctr, max))); }
                            if ctr != want_ctr { return Err(ctx(format!("counter={} model says {}", ctr, want_ctr))); }
                        }
                    }
                    // a new worker shows up at its receive gate
                    let grew = want_workers > cur_workers;
                    cur_workers = want_workers;
                    if grew && !ctl.wait_parked("gate_w_recv", want_workers) { return Err(ctx(format!("worker {} never reached its receive step", want_workers))); }
                }
                "w_recv" => {
                    if !ctl.wait_parked("gate_w_recv", w) { return Err(ctx("worker is not at its receive step".into())); }
                    ctl.release("gate_w_recv", w);
                    match ctl.wait_log(from, "w_recv", Some(w)) {
                        None => return Err(ctx("worker did not dequeue anything".into())),
                        Some((_, _, is_job, _)) => {
                            if is_job == 1 {
                                if !ctl.wait_parked("gate_w_start", w) { return Err(ctx("worker did not reach the job start".into())); }
                            }
                        }
                    }
                }
                "w_count" => return Err(ctx("model behaviour of the lagging design cannot be replayed on this pool".into())),
                "w_start" => {
                    ctl.release("gate_w_start", w);
                    match ctl.wait_log(from, "job_start", Some(w)) {
                        None => return Err(ctx("job did not start".into())),
                        Some((_, _, j, _)) => { wjob.insert(w, j); }
                    }
                    let r = running.lock().unwrap().len();
                    if r != want_running { return Err(ctx(format!("{} jobs running, model says {}", r, want_running))); }
                    if r > max { return Err(ctx(format!("{} jobs in service, max is {}", r, max))); }
                }
                "release" => {}
                "crash" => ctl.crash_job(w),
                "w_finish" => {
                    let j = *wjob.get(&w).ok_or_else(|| ctx("no job known for this worker".into()))?;
                    ctl.release_job(j);
                    if ctl.wait_log(from, "job_end", Some(w)).is_none() { return Err(ctx("job did not end".into())); }
                    if !ctl.wait_parked("gate_w_uncount", w) {
                        return Err(ctx(if ctl.job_crashes(j) { "the handler panicked and its worker never came back to un-count the job: the thread is gone while the pool still counts it".into() }
                                       else { "worker did not reach the un-count step".into() }));
                    }
                }
                "w_uncount" => {
                    ctl.release("gate_w_uncount", w);
                    match ctl.wait_log(from, "w_uncount", Some(w)) {
                        None => return Err(ctx("worker did not un-count its job".into())),
                        Some((_, _, ctr, _)) => if ctr != want_ctr { return Err(ctx(format!("counter={} model says {}", ctr, want_ctr))); },
                    }
                    if !ctl.wait_parked("gate_w_recv", w) { return Err(ctx("worker did not return to its receive step".into())); }
                }
                "drop_send" => {
                    if !ctl.wait_parked("gate_drop_send", 0) { return Err(ctx("pool drop not reached".into())); }
                    ctl.release("gate_drop_send", 0);
                    match ctl.wait_log(from, "drop_send", None) {
                        None => return Err(ctx("no Terminate messages sent".into())),
                        Some((_, _, _ctr, workers)) => if workers != want_workers { return Err(ctx(format!("{} workers at drop, model says {}", workers, want_workers))); },
                    }
                }
                "drop_joined" => {
                    if ctl.wait_log(0, "drop_joined", None).is_none() { return Err(ctx("drop did not join the workers".into())); }
                }
                other => return Err(ctx(format!("unknown model action {}", other))),
            }
        }
        Ok(())
    })();
    // cleanup: let everything run free
    ctl.free_run();
    let t0 = Instant::now();
    while !acc.is_finished() && t0.elapsed() < Duration::from_secs(5) {
        std::thread::sleep(Duration::from_millis(1));
    }
    let hung = !acc.is_finished();
    if !hung {
        let _ = acc.join();
    }
    verif::set_probe(None);
    res?;
    if hung {
        return Err("pool did not shut down after the behaviour".into());
    }
    let mr = *max_running.lock().unwrap();
    if mr > max {
        return Err(format!("{} jobs were in service at once, max is {}", mr, max));
    }
    Ok(steps)
}

pub fn run(_args: &[String]) {
    let cases = read_cases();
    let mut nfail = 0;
    let mut steps = 0usize;
    for (i, c) in cases.iter().enumerate() {
        match replay_one(c) {
            Ok(s) => steps += s,
            Err(d) => {
                nfail += 1;
                let acts: Vec<String> = c["h"].as_array().unwrap().iter().map(|a| format!("{}{}", a["a"].as_str().unwrap(), a["w"])).collect();
                emit(&json!({"fail": true, "case": i, "variant": "forced-schedule", "detail": d,
                    "sig": format!("initial={} max={} njobs={} :: {}", c["initial"], c["max"], c["njobs"], acts.join(" ")), "input": c}));
                if nfail >= 20 {
                    break;
                }
            }
        }
    }
    emit(&json!({"summary": true, "cases": cases.len(), "executions": cases.len(), "steps": steps, "failures": nfail}));
}

/// `vh pooltrace`: free-running pool under random / sleep-injected schedules; the probe log becomes a trace.
pub fn run_trace(args: &[String]) {
    let runs: usize = args.iter().find_map(|a| a.strip_prefix("--runs=").and_then(|s| s.parse().ok())).unwrap_or(50);
    let outp = args.iter().find_map(|a| a.strip_prefix("--out=")).unwrap_or("/dev/stdout").to_string();
    let mut rng = Rng::new(seed() * 977 + 5);
    use std::io::Write;
    let mut f = std::io::BufWriter::new(std::fs::File::create(&outp).expect("trace file"));
    let mut total = 0usize;
    for r in 0..runs {
        let (initial, max) = [(1usize, 1usize), (1, 2), (2, 3), (1, 4), (3, 4), (2, 2)][rng.below(6)];
        let njobs = 1 + rng.below(5);
        let ctl = Ctl::default();
        // not gated: probes only log; random sleeps inside the probe inject adversarial timing
        let c2 = ctl.clone();
        let jitter = rng.below(3);
        let sd = rng.next();
        ctl.st.0.lock().unwrap().gated = false;
        verif::set_probe(Some(Arc::new(move |ev, who, a, b| {
            if ev.starts_with("gate_") {
                if jitter > 0 {
                    // deterministic per (event, who) pseudo-random tiny sleep
                    let mut x = sd ^ (who as u64 * 0x9E37) ^ (ev.len() as u64 * 0x85EB) ^ (a as u64);
                    x ^= x >> 7;
                    if x % 3 == 0 {
                        std::thread::sleep(Duration::from_micros(50 * (x % 7)));
                    }
                }
                return;
            }
            c2.probe(ev, who, a, b);
        })));
        let mut pool = verif::PoolHandle::new(initial, max);
        let hold: Vec<u64> = (0..njobs).map(|_| rng.below(3) as u64 * 300).collect();
        // some handlers end by panicking (Pool.tla EnvCrash): for the pool that is just another way a job ends
        let crash: Vec<bool> = (0..njobs).map(|_| r % 3 == 2 && rng.chance(1, 3)).collect();
        for j in 1..=njobs {
            let c3 = ctl.clone();
            let d = hold[j - 1];
            let boom = crash[j - 1];
            pool.execute(move || {
                c3.log_ev("job_start", verif::wid(), j, 0);
                std::thread::sleep(Duration::from_micros(d));
                c3.log_ev("job_end", verif::wid(), j, 0);
                if boom {
                    panic!("verif: handler of job {} panics", j);
                }
            });
            if rng.chance(1, 3) {
                std::thread::sleep(Duration::from_micros(rng.below(400) as u64));
            }
        }
        // dropping the pool joins its workers; do it where a pool that never shuts down cannot take the whole run with it
        let dropper = std::thread::spawn(move || drop(pool));
        let t0 = Instant::now();
        while !dropper.is_finished() && t0.elapsed() < Duration::from_secs(10) {
            std::thread::sleep(Duration::from_millis(1));
        }
        if !dropper.is_finished() {
            emit(&json!({"fail": true, "case": r, "variant": "free-running", "sig": "pool shutdown does not return",
                "detail": format!("dropping the pool (initial {}, max {}, {} short jobs, all finished) did not return within 10 s: a worker does not terminate", initial, max, njobs)}));
            let _ = f.flush();
            emit(&json!({"summary": true, "cases": runs, "executions": r, "events": total, "failures": 1}));
            std::process::exit(0);
        }
        let _ = dropper.join();
        verif::set_probe(None);
        let _ = writeln!(f, "{}", json!({"ev": "reset", "initial": initial, "max": max, "njobs": njobs, "run": r}));
        for (ev, who, a, b) in ctl.take_log() {
            let _ = writeln!(f, "{}", json!({"ev": ev, "w": who, "a": a, "b": b}));
            total += 1;
        }
    }
    let _ = f.flush();
    emit(&json!({"summary": true, "cases": runs, "executions": runs, "events": total, "failures": 0}));
}
