//! `vh listen` — C15: scenario driver for the real `varlink::listen` with the cfg-gated probes logging
//! into one trace together with the driver's own events; validated by specs/Trace_Listen.tla.
//! Wall-clock assertions (strict lower bounds with 50 ms slack, generous upper bounds) are made here.
use std::io::{Read, Write};
use std::sync::atomic::{AtomicBool, Ordering};
use std::sync::{Arc, Mutex};
use std::time::{Duration, Instant};

use serde_json::{json, Value};
use varlink::{verif, ListenConfig};

use crate::conn::AnyStream;
use crate::svc;
use crate::util::*;

#[derive(Clone)]
struct Tr {
    ev: Arc<Mutex<Vec<Value>>>,
}
impl Tr {
    fn log(&self, v: Value) {
        self.ev.lock().unwrap().push(v);
    }
}

#[derive(Clone, Debug)]
enum Step {
    Sleep(u64),
    Connect(usize),
    Stream(usize), // connect + a slow streaming call (reads to the final reply in a thread)
    Close(usize),
    Stop,
    Signal, // a signal (with a handler) is delivered to the thread that runs listen()
}

struct Scenario {
    name: &'static str,
    initial: usize,
    max: usize,
    idle_s: u64,
    has_stop: bool,
    steps: Vec<Step>,
    expect: &'static str, // "ok" | "timeout"
}

fn scenarios(rng: &mut Rng) -> Vec<Scenario> {
    use Step::*;
    let j = |rng: &mut Rng, base: u64, spread: u64| base + rng.below(spread as usize + 1) as u64;
    let mut v = Vec::new();
    for has_stop in [false, true] {
        v.push(Scenario { name: "none", initial: 1, max: 2, idle_s: 1, has_stop, steps: vec![], expect: "timeout" });
        v.push(Scenario { name: "just-before-deadline", initial: 1, max: 2, idle_s: 1, has_stop,
            steps: vec![Sleep(j(rng, 820, 120)), Connect(1), Sleep(j(rng, 20, 60)), Close(1)], expect: "timeout" });
        v.push(Scenario { name: "long-lived-across-deadlines", initial: 1, max: 2, idle_s: 1, has_stop,
            steps: vec![Sleep(j(rng, 100, 200)), Connect(1), Sleep(j(rng, 2300, 300)), Close(1)], expect: "timeout" });
        v.push(Scenario { name: "closing-at-the-deadline", initial: 2, max: 3, idle_s: 1, has_stop,
            steps: vec![Sleep(100), Connect(1), Sleep(j(rng, 980, 40)), Close(1)], expect: "timeout" });
        v.push(Scenario { name: "two-then-idle", initial: 1, max: 1, idle_s: 1, has_stop,
            steps: vec![Connect(1), Connect(2), Sleep(j(rng, 200, 300)), Close(1), Sleep(j(rng, 100, 900)), Close(2)], expect: "timeout" });
    }
    v.push(Scenario { name: "idle2-none", initial: 1, max: 1, idle_s: 2, has_stop: false, steps: vec![], expect: "timeout" });
    v.push(Scenario { name: "idle2-long-lived", initial: 1, max: 2, idle_s: 2, has_stop: true,
        steps: vec![Sleep(j(rng, 1500, 400)), Connect(1), Sleep(j(rng, 2100, 300)), Close(1)], expect: "timeout" });
    v.push(Scenario { name: "stop-before-any", initial: 1, max: 2, idle_s: 0, has_stop: true, steps: vec![Sleep(j(rng, 30, 100)), Stop], expect: "ok" });
    v.push(Scenario { name: "stop-before-any-idle1", initial: 1, max: 2, idle_s: 1, has_stop: true, steps: vec![Sleep(j(rng, 30, 300)), Stop], expect: "ok" });
    v.push(Scenario { name: "stop-while-serving", initial: 1, max: 2, idle_s: 0, has_stop: true,
        steps: vec![Connect(1), Sleep(j(rng, 50, 100)), Stop, Sleep(j(rng, 250, 200)), Close(1)], expect: "ok" });
    v.push(Scenario { name: "stop-while-streaming", initial: 1, max: 2, idle_s: 0, has_stop: true,
        steps: vec![Stream(1), Sleep(j(rng, 20, 60)), Stop, Sleep(600), Close(1)], expect: "ok" });
    v.push(Scenario { name: "stop-after-connections", initial: 2, max: 3, idle_s: 0, has_stop: true,
        steps: vec![Connect(1), Connect(2), Sleep(50), Close(1), Close(2), Sleep(j(rng, 50, 150)), Stop], expect: "ok" });
    v.push(Scenario { name: "stop-with-queued-connection", initial: 1, max: 2, idle_s: 0, has_stop: true,
        steps: vec![Connect(1), Connect(2), Connect(3), Sleep(j(rng, 100, 100)), Stop, Sleep(200), Close(1), Sleep(100), Close(2), Sleep(50), Close(3)], expect: "ok" });
    v.push(Scenario { name: "stop-idle1-while-serving", initial: 1, max: 1, idle_s: 1, has_stop: true,
        steps: vec![Connect(1), Sleep(j(rng, 1200, 300)), Stop, Sleep(150), Close(1)], expect: "ok" });
    v.push(Scenario { name: "stop-then-late-connection", initial: 1, max: 2, idle_s: 0, has_stop: true,
        steps: vec![Connect(1), Stop, Sleep(400), Close(1)], expect: "ok" });
    // connections that arrive after the flag was set but before the loop looks at it (it does so on accept time-outs only) are
    // accepted, and whatever is accepted is served
    v.push(Scenario { name: "arrivals-right-after-stop", initial: 1, max: 4, idle_s: 0, has_stop: true,
        steps: vec![Sleep(j(rng, 20, 60)), Stop, Connect(1), Sleep(j(rng, 20, 30)), Connect(2), Sleep(j(rng, 20, 30)), Connect(3), Sleep(j(rng, 150, 100)),
                    Close(1), Close(2), Close(3)], expect: "ok" });
    // a signal that interrupts the wait for connections changes nothing: the idle period and the stop flag are still honoured
    v.push(Scenario { name: "signal-while-idle", initial: 1, max: 2, idle_s: 1, has_stop: false,
        steps: vec![Sleep(j(rng, 200, 300)), Signal], expect: "timeout" });
    v.push(Scenario { name: "signal-then-stop", initial: 1, max: 2, idle_s: 0, has_stop: true,
        steps: vec![Sleep(j(rng, 50, 100)), Signal, Sleep(j(rng, 50, 100)), Stop], expect: "ok" });
    v.push(Scenario { name: "arrival-right-after-stop-idle1", initial: 1, max: 2, idle_s: 1, has_stop: true,
        steps: vec![Sleep(j(rng, 100, 200)), Stop, Stream(1), Sleep(j(rng, 300, 100)), Close(1)], expect: "ok" });
    v
}

fn run_scenario(sc: &Scenario, idx: usize, transport: &str, tr: &Tr) -> Result<(), String> {
    let dir = tmpdir(&format!("listen{}", idx));
    let path = dir.join("s");
    let addr = match transport {
        "abstract" => format!("unix:@verif-listen-{}-{}", std::process::id(), idx),
        "tcp" => format!("tcp:127.0.0.1:{}", free_port(false)),
        "mode" => format!("unix:{};mode=0600", path.display()),
        _ => format!("unix:{}", path.display()),
    };
    let is_path = transport == "unix" || transport == "mode";
    tr.log(json!({"ev": "reset", "initial": sc.initial, "max": sc.max, "idle_ms": sc.idle_s * 1000, "has_stop": sc.has_stop, "scenario": sc.name, "transport": transport}));
    let t2 = tr.clone();
    verif::set_probe(Some(Arc::new(move |ev, who, a, b| {
        if ev.starts_with("gate_") {
            return;
        }
        t2.log(json!({"ev": ev, "w": who, "a": a, "b": b}));
    })));
    let stop = Arc::new(AtomicBool::new(false));
    let cfg = ListenConfig { initial_worker_threads: sc.initial, max_worker_threads: sc.max, idle_timeout: sc.idle_s, stop_listening: if sc.has_stop { Some(stop.clone()) } else { None } };
    let log: svc::SharedLog = Default::default();
    let service = svc::standard_service(log);
    let a2 = addr.clone();
    let t_start = Instant::now();
    let listen_thread = Arc::new(std::sync::atomic::AtomicU64::new(0));
    let lt2 = listen_thread.clone();
    let th = std::thread::spawn(move || {
        lt2.store(unsafe { libc::pthread_self() } as u64, Ordering::SeqCst);
        let r = varlink::listen(service, &a2, &cfg);
        (r, Instant::now())
    });
    // wait for the socket to accept, without creating a connection (it would count as one for the idle time-out)
    if !wait_listening(&addr, Duration::from_secs(5)) {
        return Err("listen() did not start listening on its address within 5 s".into());
    }
    let mut conns: std::collections::HashMap<usize, AnyStream> = Default::default();
    let mut streams: std::collections::HashMap<usize, std::thread::JoinHandle<Result<usize, String>>> = Default::default();
    let mut last_connect = t_start;
    let mut stop_at: Option<Instant> = None;
    let mut last_close = t_start;
    let mut err: Option<String> = None;
    for st in &sc.steps {
        match st {
            Step::Sleep(ms) => std::thread::sleep(Duration::from_millis(*ms)),
            Step::Connect(j) | Step::Stream(j) => {
                tr.log(json!({"ev": "arrive", "j": j}));
                match AnyStream::connect(&addr) {
                    Err(e) => {
                        err = Some(format!("connect {} failed: {}", j, e));
                        break;
                    }
                    Ok(mut s) => {
                        last_connect = Instant::now();
                        s.set_read_timeout(Duration::from_secs(6));
                        if let Step::Stream(_) = st {
                            let req = json!({"method": "org.example.script.Run", "more": true,
                                "parameters": {"script": ["c1", "r", "z", "r", "z", "r", "z", "r", "z", "c0", "r"], "tok": format!("s{}", j)}});
                            let mut b = serde_json::to_vec(&req).unwrap();
                            b.push(0);
                            let _ = s.write_all(&b);
                            let mut rd = s.try_clone().unwrap();
                            streams.insert(*j, std::thread::spawn(move || {
                                // read until the final reply (no `continues`)
                                let mut all = Vec::new();
                                let mut buf = [0u8; 4096];
                                loop {
                                    match rd.read(&mut buf) {
                                        Ok(0) => return Err(format!("connection closed after {} bytes, streaming reply truncated: {}", all.len(), lossy(&all))),
                                        Ok(n) => all.extend_from_slice(&buf[..n]),
                                        Err(e) => return Err(format!("read error {} after {:?}", e, lossy(&all))),
                                    }
                                    let (msgs, rest) = split_nul(&all);
                                    if rest.is_empty() {
                                        if let Some(last) = msgs.last() {
                                            let v: Value = serde_json::from_slice(last).unwrap_or(Value::Null);
                                            if v.get("continues").is_none() {
                                                return Ok(msgs.len());
                                            }
                                        }
                                    }
                                }
                            }));
                        } else {
                            // a queued connection (more connections than workers) is answered only once it is served:
                            // write the request now, read the reply when closing
                            let req = json!({"method": "org.example.gen.Ping", "parameters": {"ping": format!("c{}", j)}});
                            let mut b = serde_json::to_vec(&req).unwrap();
                            b.push(0);
                            let _ = s.write_all(&b);
                        }
                        conns.insert(*j, s);
                    }
                }
            }
            Step::Close(j) => {
                if let Some(h) = streams.remove(j) {
                    match h.join().unwrap() {
                        Ok(n) => {
                            if n != 5 {
                                err = Some(format!("streaming call got {} replies, expected 5", n));
                            }
                        }
                        Err(e) => err = Some(e),
                    }
                } else if let Some(s) = conns.get_mut(j) {
                    // every accepted connection is served to completion: the reply must arrive in full
                    let mut all = Vec::new();
                    let mut buf = [0u8; 4096];
                    loop {
                        match s.read(&mut buf) {
                            Ok(0) => break,
                            Ok(n) => {
                                all.extend_from_slice(&buf[..n]);
                                if all.ends_with(&[0]) {
                                    break;
                                }
                            }
                            Err(_) => break,
                        }
                    }
                    let want = json!({"parameters": {"pong": format!("c{}", j)}});
                    let (msgs, _) = split_nul(&all);
                    if msgs.len() != 1 || serde_json::from_slice::<Value>(&msgs[0]).ok() != Some(want) {
                        err = Some(format!("connection {} (accepted before the loop stopped) did not get its complete reply: {:?}", j, lossy(&all)));
                    }
                }
                tr.log(json!({"ev": "close", "j": j}));
                conns.remove(j);
                last_close = Instant::now();
            }
            Step::Signal => {
                extern "C" fn on_signal(_: libc::c_int) {}
                unsafe {
                    let mut sa: libc::sigaction = std::mem::zeroed();
                    sa.sa_sigaction = on_signal as usize;
                    libc::sigemptyset(&mut sa.sa_mask);
                    sa.sa_flags = 0; // no SA_RESTART: blocking calls are interrupted
                    libc::sigaction(libc::SIGUSR1, &sa, std::ptr::null_mut());
                    let t = listen_thread.load(Ordering::SeqCst);
                    if t != 0 {
                        libc::pthread_kill(t as libc::pthread_t, libc::SIGUSR1);
                    }
                }
            }
            Step::Stop => {
                tr.log(json!({"ev": "set_stop_begin"}));
                stop.store(true, Ordering::SeqCst);
                stop_at = Some(Instant::now());
                tr.log(json!({"ev": "set_stop_end"}));
            }
        }
        if err.is_some() {
            break;
        }
    }
    // wait for listen() to return
    let deadline = Duration::from_millis(sc.idle_s * 1000 + 3000);
    let t0 = Instant::now();
    while !th.is_finished() && t0.elapsed() < deadline {
        std::thread::sleep(Duration::from_millis(2));
    }
    if !th.is_finished() {
        // let it go (set the stop flag if there is one) — the scenario has failed anyway
        stop.store(true, Ordering::SeqCst);
        conns.clear();
        verif::set_probe(None);
        let _ = std::fs::remove_dir_all(&dir);
        return Err(err.unwrap_or_else(|| format!("listen() did not return within {:?} after the scenario ended (expected {})", deadline, sc.expect)));
    }
    let (r, t_ret) = th.join().unwrap();
    verif::set_probe(None);
    let value = match &r {
        Ok(()) => "ok",
        Err(e) if *e.kind() == varlink::ErrorKind::Timeout => "timeout",
        Err(_) => "error",
    };
    tr.log(json!({"ev": "returned", "value": value, "is_path": is_path, "exists": path.exists()}));
    let _ = std::fs::remove_dir_all(&dir);
    if let Some(e) = err {
        return Err(e);
    }
    if value != sc.expect {
        return Err(format!("listen() returned {:?}, scenario expects {}", r.as_ref().map_err(|e| format!("{:?}", e.kind())), sc.expect));
    }
    // wall clock: a timeout only after at least the idle period without a new connection
    if value == "timeout" {
        let since = t_ret.duration_since(last_connect);
        if since + Duration::from_millis(50) < Duration::from_secs(sc.idle_s) {
            return Err(format!("timeout returned {:?} after the last connection arrived; idle_timeout is {} s", since, sc.idle_s));
        }
        // ... and promptly: at most two idle periods (+ slack) after the later of last accept / last close
        let base = if last_close > last_connect { last_close } else { last_connect };
        let lim = Duration::from_millis(sc.idle_s * 2000 + 1500);
        if t_ret.duration_since(base) > lim {
            return Err(format!("timeout came {:?} after the server went idle (limit {:?})", t_ret.duration_since(base), lim));
        }
    }
    if value == "ok" {
        if let Some(sa) = stop_at {
            let base = if last_close > sa { last_close } else { sa };
            let d = t_ret.duration_since(base);
            if d > Duration::from_millis(100 + 1000) {
                return Err(format!("listen() returned {:?} after the stop flag was set and the connections were done (quantum 100 ms + 1 s slack)", d));
            }
        }
    }
    Ok(())
}

pub fn run(args: &[String]) {
    let outp = args.iter().find_map(|a| a.strip_prefix("--out=")).unwrap_or("/dev/stdout").to_string();
    let part: usize = args.iter().find_map(|a| a.strip_prefix("--part=").and_then(|s| s.parse().ok())).unwrap_or(0);
    let parts: usize = args.iter().find_map(|a| a.strip_prefix("--parts=").and_then(|s| s.parse().ok())).unwrap_or(1);
    let reps: usize = args.iter().find_map(|a| a.strip_prefix("--reps=").and_then(|s| s.parse().ok())).unwrap_or(1);
    let mut nfail = 0;
    let mut n = 0;
    let tr = Tr { ev: Default::default() };
    for rep in 0..reps {
        let mut rng = Rng::new(seed() * 131 + rep as u64);
        let scs = scenarios(&mut rng);
        for (i, sc) in scs.iter().enumerate() {
            if (i + rep) % parts != part || nfail > 12 {
                continue;
            }
            let transport = ["unix", "unix", "mode", "abstract", "tcp"][(i + rep * 3 + seed() as usize) % 5];
            n += 1;
            if let Err(d) = run_scenario(sc, i + 100 * rep, transport, &tr) {
                nfail += 1;
                emit(&json!({"fail": true, "case": i, "variant": format!("{} {} stop={} idle={}", sc.name, transport, sc.has_stop, sc.idle_s), "detail": d,
                    "sig": format!("scenario={} stop={} idle={}", sc.name, sc.has_stop, sc.idle_s),
                    "input": {"scenario": sc.name, "steps": format!("{:?}", sc.steps), "initial": sc.initial, "max": sc.max}}));
            }
        }
    }
    {
        let mut f = std::io::BufWriter::new(std::fs::File::create(&outp).expect("trace file"));
        for e in tr.ev.lock().unwrap().iter() {
            let _ = writeln!(f, "{}", e);
        }
    }
    emit(&json!({"summary": true, "cases": n, "executions": n, "failures": nfail, "events": tr.ev.lock().unwrap().len()}));
}
