//! Test services of the conformance harness.
//!
//! * `org.example.gen`  — implemented through the bindings the repository's generator emits
//!   (build.rs), so generated dispatch / parameter validation is code under test.
//! * `org.example.script` — hand-written `varlink::Interface`: the request carries a script of
//!   method-implementation steps (C05), every step's result is logged.
//! * `Recorder` interfaces — hand-written, registered under arbitrary names (C03).
use std::cell::RefCell;
use std::collections::HashMap;
use std::io::BufRead;
use std::sync::{Arc, Mutex};

use serde_json::{json, Value};
use varlink::{Call, CallTrait, Reply, VarlinkService};

#[allow(dead_code, non_camel_case_types, non_snake_case, clippy::all)]
pub mod gen {
    include!(concat!(env!("OUT_DIR"), "/org.example.gen.rs"));
}

thread_local! {
    /// token of the request that upgraded the connection served by this thread
    static CUR_TOK: RefCell<String> = RefCell::new(String::new());
}

#[derive(Default, Debug)]
pub struct Log {
    /// bytes handed to call_upgraded, keyed by the token of the upgrading request
    pub up_rx: HashMap<String, Vec<u8>>,
    /// number of call_upgraded invocations per token
    pub up_calls: HashMap<String, usize>,
    /// per script token: result of every step
    pub script: HashMap<String, Vec<String>>,
    /// recorder hits: (registered name, method, more, oneway, upgrade, parameters)
    pub hits: Vec<(String, String, Option<bool>, Option<bool>, Option<bool>, Option<Value>)>,
}

pub type SharedLog = Arc<Mutex<Log>>;

pub struct GenImpl {
    pub log: SharedLog,
}

impl gen::VarlinkInterface for GenImpl {
    fn fail(&self, call: &mut dyn gen::Call_Fail, tok: String) -> varlink::Result<()> {
        call.reply_failed(tok)
    }
    fn no_args(&self, call: &mut dyn gen::Call_NoArgs) -> varlink::Result<()> {
        call.reply()
    }
    fn ping(&self, call: &mut dyn gen::Call_Ping, ping: String) -> varlink::Result<()> {
        call.reply(ping)
    }
    fn stream(&self, call: &mut dyn gen::Call_Stream, n: i64, tok: String) -> varlink::Result<()> {
        if !call.wants_more() {
            return call.reply_needs_more();
        }
        call.set_continues(true);
        for i in 0..n {
            call.reply(i, tok.clone())?;
        }
        call.set_continues(false);
        call.reply(n, tok)
    }
    fn up(&self, call: &mut dyn gen::Call_Up, tok: String) -> varlink::Result<()> {
        CUR_TOK.with(|t| *t.borrow_mut() = tok.clone());
        call.reply(tok)?;
        call.to_upgraded();
        Ok(())
    }
    fn call_upgraded(
        &self,
        _call: &mut varlink::Call,
        bufreader: &mut dyn BufRead,
    ) -> varlink::Result<Vec<u8>> {
        let tok = CUR_TOK.with(|t| t.borrow().clone());
        {
            let mut l = self.log.lock().unwrap();
            *l.up_calls.entry(tok.clone()).or_insert(0) += 1;
        }
        // read to EOF, recording every byte in order
        loop {
            let n = {
                let b = match bufreader.fill_buf() {
                    Ok(b) => b,
                    Err(_) => break,
                };
                if b.is_empty() {
                    break;
                }
                let mut l = self.log.lock().unwrap();
                l.up_rx.entry(tok.clone()).or_default().extend_from_slice(b);
                b.len()
            };
            bufreader.consume(n);
            // the peer may ask the upgraded service to end the session from its side: say goodbye, then hang up
            if self.log.lock().unwrap().up_rx.get(&tok).map(|b| b.ends_with(b"HANGUP\n")).unwrap_or(false) {
                let _ = _call.writer.write_all(format!("BYE-{}\n", tok).as_bytes());
                let _ = _call.writer.flush();
                return Err(varlink::context!(varlink::ErrorKind::ConnectionClosed));
            }
        }
        Ok(Vec::new())
    }
}

/// Hand-written scripted interface (C05).
pub struct ScriptIface {
    pub log: SharedLog,
}

pub const SCRIPT_DESCR: &str = "interface org.example.script\n\nmethod Run(script: []string, tok: string) -> (step: int, tok: string)\n\nerror ScriptError (step: int, tok: string)\n";

impl varlink::Interface for ScriptIface {
    fn get_description(&self) -> &'static str {
        SCRIPT_DESCR
    }
    fn get_name(&self) -> &'static str {
        "org.example.script"
    }
    fn call_upgraded(&self, _call: &mut Call, bufreader: &mut dyn BufRead) -> varlink::Result<Vec<u8>> {
        let tok = CUR_TOK.with(|t| t.borrow().clone());
        {
            let mut l = self.log.lock().unwrap();
            *l.up_calls.entry(tok.clone()).or_insert(0) += 1;
        }
        loop {
            let n = {
                let b = match bufreader.fill_buf() {
                    Ok(b) => b,
                    Err(_) => break,
                };
                if b.is_empty() {
                    break;
                }
                let mut l = self.log.lock().unwrap();
                l.up_rx.entry(tok.clone()).or_default().extend_from_slice(b);
                b.len()
            };
            bufreader.consume(n);
            // the peer may ask the upgraded service to end the session from its side: say goodbye, then hang up
            if self.log.lock().unwrap().up_rx.get(&tok).map(|b| b.ends_with(b"HANGUP\n")).unwrap_or(false) {
                let _ = _call.writer.write_all(format!("BYE-{}\n", tok).as_bytes());
                let _ = _call.writer.flush();
                return Err(varlink::context!(varlink::ErrorKind::ConnectionClosed));
            }
        }
        Ok(Vec::new())
    }
    fn call(&self, call: &mut Call) -> varlink::Result<()> {
        let req = call.request.unwrap();
        if req.method != "org.example.script.Run" {
            return call.reply_method_not_found(req.method.to_string());
        }
        let params = match req.parameters.clone() {
            Some(p) => p,
            None => return call.reply_invalid_parameter("parameters".into()),
        };
        let tok = params.get("tok").and_then(|v| v.as_str()).unwrap_or("").to_string();
        let script: Vec<String> = params
            .get("script")
            .and_then(|v| v.as_array())
            .map(|a| a.iter().filter_map(|x| x.as_str().map(String::from)).collect())
            .unwrap_or_default();
        let mut results: Vec<String> = Vec::new();
        let mut ret: varlink::Result<()> = Ok(());
        for (idx, s) in script.iter().enumerate() {
            let pos = (idx + 1) as i64;
            match s.as_str() {
                "c1" => {
                    call.set_continues(true);
                    results.push("set".into());
                }
                "c0" => {
                    call.set_continues(false);
                    results.push("set".into());
                }
                "u" => {
                    CUR_TOK.with(|t| *t.borrow_mut() = tok.clone());
                    call.to_upgraded();
                    results.push("set".into());
                }
                "g" => {
                    // the upgraded service speaks first: raw bytes right behind the reply that confirmed the upgrade
                    // (`greet_len`: a greeting of exactly that many bytes whose last line feed is followed by 500 more bytes)
                    let mut hello = format!("HELLO-{}\n", tok).into_bytes();
                    if let Some(n) = params.get("greet_len").and_then(|v| v.as_u64()) {
                        let n = n as usize;
                        if n > hello.len() + 502 {
                            hello.extend(std::iter::repeat(b'x').take(n - hello.len() - 501));
                            hello.push(b'\n');
                            hello.extend(std::iter::repeat(b'y').take(500));
                        }
                    }
                    let _ = call.writer.write_all(&hello);
                    let _ = call.writer.flush();
                    results.push("set".into());
                }
                "z" => {
                    // harness-only step: a slow method implementation (C15: streaming reply in flight)
                    std::thread::sleep(std::time::Duration::from_millis(40));
                    results.push("set".into());
                }
                "x" => {
                    results.push("ret_err".into());
                    ret = Err(varlink::context!(varlink::ErrorKind::Generic));
                    break;
                }
                "r" | "R" | "e" | "n" => {
                    let reply = if s == "n" {
                        // what CallTrait::reply_method_not_implemented builds is sent through the helper itself below
                        Reply::parameters(None)
                    } else if s == "e" {
                        Reply::error(
                            "org.example.script.ScriptError",
                            Some(json!({"step": pos, "tok": tok})),
                        )
                    } else {
                        Reply::parameters(Some(json!({"step": pos, "tok": tok})))
                    };
                    let sent = if s == "n" { call.reply_method_not_implemented(req.method.to_string()) } else { call.reply_struct(reply) };
                    match sent {
                        Ok(()) => results.push("ok".into()),
                        Err(e) => {
                            let cls = match e.kind() {
                                varlink::ErrorKind::CallContinuesMismatch => "mismatch".to_string(),
                                k => format!("other:{:?}", k),
                            };
                            results.push(cls);
                            if s != "R" {
                                ret = Err(e);
                                break;
                            }
                        }
                    }
                }
                other => results.push(format!("unknown-step:{}", other)),
            }
        }
        self.log.lock().unwrap().script.insert(tok, results);
        ret
    }
}

/// Recording interface registered under an arbitrary name (C03).
pub struct Recorder {
    pub name: &'static str,
    pub descr: &'static str,
    pub log: SharedLog,
}

impl varlink::Interface for Recorder {
    fn get_description(&self) -> &'static str {
        self.descr
    }
    fn get_name(&self) -> &'static str {
        self.name
    }
    fn call_upgraded(&self, _call: &mut Call, _bufreader: &mut dyn BufRead) -> varlink::Result<Vec<u8>> {
        Ok(Vec::new())
    }
    fn call(&self, call: &mut Call) -> varlink::Result<()> {
        let req = call.request.unwrap();
        self.log.lock().unwrap().hits.push((
            self.name.to_string(),
            req.method.to_string(),
            req.more,
            req.oneway,
            req.upgrade,
            req.parameters.clone(),
        ));
        // methods of a recorder: anything ending in ".Hit" exists, everything else does not
        if req.method.ends_with(".Hit") {
            call.reply_struct(Reply::parameters(Some(json!({"hit": self.name}))))
        } else {
            call.reply_method_not_found(req.method.to_string())
        }
    }
}

pub const VENDOR: &str = "verif vendor";
pub const PRODUCT: &str = "verif product \u{e9}";
pub const VERSION: &str = "0.0.1-verif";
pub const URL: &str = "http://verif.example/";

pub fn standard_service(log: SharedLog) -> VarlinkService {
    VarlinkService::new(
        VENDOR,
        PRODUCT,
        VERSION,
        URL,
        vec![
            Box::new(gen::new(Box::new(GenImpl { log: log.clone() }))),
            Box::new(ScriptIface { log }),
        ],
    )
}

pub fn gen_description() -> &'static str {
    use varlink::Interface;
    let l: SharedLog = Default::default();
    let p = gen::new(Box::new(GenImpl { log: l }));
    p.get_description()
}

pub fn gen_only_service(log: SharedLog) -> VarlinkService {
    VarlinkService::new(VENDOR, "service A", VERSION, URL, vec![Box::new(gen::new(Box::new(GenImpl { log })))])
}

pub fn script_only_service(log: SharedLog) -> VarlinkService {
    VarlinkService::new(VENDOR, "service B", VERSION, URL, vec![Box::new(ScriptIface { log })])
}

/// A resolver for the bridge tests (bindings from varlink_stdinterfaces).
pub struct Resolver {
    pub map: std::collections::HashMap<String, String>,
}

pub const RESOLVER_VENDOR: &str = "verif resolver";

impl varlink_stdinterfaces::org_varlink_resolver::VarlinkInterface for Resolver {
    fn get_info(&self, call: &mut dyn varlink_stdinterfaces::org_varlink_resolver::Call_GetInfo) -> varlink::Result<()> {
        let mut ifs: Vec<String> = self.map.keys().cloned().collect();
        ifs.sort();
        call.reply(RESOLVER_VENDOR.into(), "resolver".into(), "1".into(), "http://r".into(), ifs)
    }
    fn resolve(&self, call: &mut dyn varlink_stdinterfaces::org_varlink_resolver::Call_Resolve, interface: String) -> varlink::Result<()> {
        match self.map.get(&interface) {
            Some(a) => call.reply(a.clone()),
            None => call.reply_interface_not_found(interface),
        }
    }
}

pub fn resolver_service(map: std::collections::HashMap<String, String>) -> VarlinkService {
    VarlinkService::new(RESOLVER_VENDOR, "resolver", "1", "http://r",
        vec![Box::new(varlink_stdinterfaces::org_varlink_resolver::new(Box::new(Resolver { map })))])
}
