//! `vh route` — replay of specs/Route.tla (C03): services with recorder interfaces registered under
//! spec-chosen colliding names; every spec-chosen method string x flags x parameter shapes goes through
//! handle(); the recorder hit / error payload / GetInfo / GetInterfaceDescription are compared with the spec.
use std::collections::HashSet;

use serde_json::{json, Value};
use varlink::{ConnectionHandler, VarlinkService};

use crate::conn::SVC_DESCR;
use crate::svc::{self, Recorder, SharedLog};
use crate::util::*;

fn join(v: &Value) -> String {
    v.as_array().unwrap().iter().map(|x| x.as_str().unwrap()).collect::<Vec<_>>().join(".")
}

fn leak(s: String) -> &'static str {
    Box::leak(s.into_boxed_str())
}

fn descr_of(name: &str) -> String {
    format!("# description of {} \u{e9}\ninterface {}\n\nmethod Hit() -> (hit: string)\n", name, name)
}

fn build(names: &[String], log: &SharedLog) -> VarlinkService {
    let mut v: Vec<Box<dyn varlink::Interface + Send + Sync>> = Vec::new();
    for n in names {
        v.push(Box::new(Recorder { name: leak(n.clone()), descr: leak(descr_of(n)), log: log.clone() }));
    }
    VarlinkService::new(svc::VENDOR, svc::PRODUCT, svc::VERSION, svc::URL, v)
}

fn call(service: &VarlinkService, req: &Value) -> (Vec<Value>, bool, bool) {
    let mut b = serde_json::to_vec(req).unwrap();
    b.push(0);
    let mut w: Vec<u8> = Vec::new();
    let _wd = crate::conn::watched("VarlinkService::handle", &[b.clone()]);
    let r = std::panic::catch_unwind(std::panic::AssertUnwindSafe(|| service.handle(&mut b.as_slice(), &mut w, None)));
    let (msgs, _) = split_nul(&w);
    let replies = msgs.iter().map(|m| serde_json::from_slice(m).unwrap_or(json!({"NOT-JSON": lossy(m)}))).collect();
    match r {
        Err(_) => (replies, false, true),
        Ok(Err(_)) => (replies, false, false),
        Ok(Ok(_)) => (replies, true, false),
    }
}

pub fn run(_args: &[String]) {
    let cases = read_cases();
    let mut nfail = 0usize;
    let mut execs = 0usize;
    let mut cfg_done: HashSet<String> = HashSet::new();
    let flagsets: Vec<Vec<&str>> = vec![vec![], vec!["more"], vec!["oneway"], vec!["upgrade"], vec!["more", "upgrade"]];
    let params: Vec<Option<Value>> = vec![
        None, Some(Value::Null), Some(json!({})), Some(json!({"a": 1, "b": [true, null, {"c": "\u{e9}\n"}], "interface": "a.b"})),
        Some(json!("str")), Some(json!(5)), Some(json!([1, 2])),
    ];
    for (idx, case) in cases.iter().enumerate() {
        let names: Vec<String> = case["cfg"].as_array().unwrap().iter().map(join).collect();
        let method = join(&case["m"]);
        let route = &case["route"];
        let mut fail = |variant: String, detail: String| {
            nfail += 1;
            emit(&json!({"fail": true, "case": idx, "variant": variant, "detail": detail,
                "sig": format!("cfg={:?} method={:?}", names, method), "input": case}));
        };
        // two registration orders
        for order in 0..3 {
            let mut ns = names.clone();
            if order == 1 {
                if ns.len() < 2 { continue; }
                ns.reverse();
            }
            if order == 2 {
                // a name registered twice (a default implementation and its override, a service assembled from modules): the routing
                // table is the SET of registered names (Route.tla: Table) - one entry, one line in GetInfo
                if ns.is_empty() || idx % 5 != 0 { continue; }
                ns.push(ns[0].clone());
                if ns.len() > 2 { ns.push(ns[1].clone()); }
            }
            let log: SharedLog = Default::default();
            let service = build(&ns, &log);
            for fl in &flagsets {
                for p in &params {
                    let mut req = json!({"method": method});
                    for f in fl { req[*f] = json!(true); }
                    if let Some(pv) = p { req["parameters"] = pv.clone(); }
                    let oneway = fl.contains(&"oneway");
                    log.lock().unwrap().hits.clear();
                    execs += 1;
                    let (replies, ok, panicked) = call(&service, &req);
                    let hits = log.lock().unwrap().hits.clone();
                    let variant = format!("order{} flags{:?} params={}", order, fl, p.as_ref().map(|x| x.to_string()).unwrap_or("absent".into()));
                    if panicked { fail(variant, "the service panicked".into()); continue; }
                    let t = route["t"].as_str().unwrap();
                    let mut expect_reply: Option<Value> = None;
                    let mut expect_hit: Option<String> = None;
                    let mut skip_reply_check = false;
                    match t {
                        "ifnf" => expect_reply = Some(json!({"error": "org.varlink.service.InterfaceNotFound", "parameters": {"interface": join(&route["name"])}})),
                        "hit" => {
                            let n = join(&route["name"]);
                            expect_hit = Some(n.clone());
                            expect_reply = Some(if method.ends_with(".Hit") { json!({"parameters": {"hit": n}}) }
                                else { json!({"error": "org.varlink.service.MethodNotFound", "parameters": {"method": method}}) });
                        }
                        "builtin" => match route["meth"].as_str().unwrap() {
                            "GetInfo" => skip_reply_check = true,               // checked per configuration below
                            "GetInterfaceDescription" => skip_reply_check = true, // checked per configuration below
                            _ => expect_reply = Some(json!({"error": "org.varlink.service.MethodNotFound", "parameters": {"method": method}})),
                        },
                        _ => {}
                    }
                    // recorder hits
                    match &expect_hit {
                        None => if !hits.is_empty() { fail(variant.clone(), format!("request reached interface(s) {:?}, spec says none", hits.iter().map(|h| h.0.clone()).collect::<Vec<_>>())); continue; },
                        Some(n) => {
                            if hits.len() != 1 || &hits[0].0 != n {
                                fail(variant.clone(), format!("request reached {:?}, spec says exactly the interface registered as {:?}", hits.iter().map(|h| h.0.clone()).collect::<Vec<_>>(), n));
                                continue;
                            }
                            let h = &hits[0];
                            let want_params = match p { Some(Value::Null) | None => None, Some(v) => Some(v.clone()) };
                            let flag = |f: &str| if fl.contains(&f) { Some(true) } else { None };
                            if h.1 != method || h.2 != flag("more") || h.3 != flag("oneway") || h.4 != flag("upgrade") || h.5 != want_params {
                                fail(variant.clone(), format!("interface received method={:?} more={:?} oneway={:?} upgrade={:?} params={:?}; sent {}", h.1, h.2, h.3, h.4, h.5, req));
                                continue;
                            }
                        }
                    }
                    if skip_reply_check { continue; }
                    if !ok { fail(variant, format!("handle() failed for a well-formed request {}", req)); continue; }
                    if oneway {
                        if !replies.is_empty() { fail(variant, format!("reply written for a oneway request: {}", replies[0])); }
                        continue;
                    }
                    if replies.len() != 1 || Some(&replies[0]) != expect_reply.as_ref() {
                        fail(variant, format!("replies {:?}, spec says {}", replies, expect_reply.unwrap_or(Value::Null)));
                    }
                }
            }
            // per configuration: GetInfo and GetInterfaceDescription
            let key = format!("{:?}", ns);
            if cfg_done.insert(key) {
                execs += 1;
                let (replies, _ok, _) = call(&service, &json!({"method": "org.varlink.service.GetInfo"}));
                let good = replies.len() == 1 && {
                    let p = &replies[0]["parameters"];
                    let l: Vec<String> = p["interfaces"].as_array().map(|a| a.iter().map(|x| x.as_str().unwrap_or("").to_string()).collect()).unwrap_or_default();
                    let mut rest: Vec<String> = l.iter().skip(1).cloned().collect();
                    rest.sort();
                    let mut want = ns.clone();
                    want.sort();
                    want.dedup();
                    p["vendor"] == svc::VENDOR && p["product"] == svc::PRODUCT && p["version"] == svc::VERSION && p["url"] == svc::URL
                        && l.first().map(|s| s.as_str()) == Some("org.varlink.service") && rest == want && replies[0].get("error").is_none()
                        && p.as_object().map(|o| o.len()) == Some(5)
                };
                if !good { fail(format!("GetInfo order{}", order), format!("GetInfo reply {:?} does not list org.varlink.service first and {:?} exactly once with the configured strings", replies, ns)); }
                for d in case["descr"].as_array().unwrap() {
                    let arg = &d["arg"];
                    let res = &d["res"];
                    let req = match arg["k"].as_str().unwrap() {
                        "absent" => json!({"method": "org.varlink.service.GetInterfaceDescription"}),
                        "illtyped" => json!({"method": "org.varlink.service.GetInterfaceDescription", "parameters": {"interface": 7}}),
                        _ => json!({"method": "org.varlink.service.GetInterfaceDescription", "parameters": {"interface": join(&arg["name"])}}),
                    };
                    execs += 1;
                    let (replies, ok, panicked) = call(&service, &req);
                    let variant = format!("GetInterfaceDescription {}", req["parameters"]);
                    if panicked { fail(variant, "the service panicked".into()); continue; }
                    match res["t"].as_str().unwrap() {
                        "close" => if !replies.is_empty() { fail(variant, format!("reply {:?} for undecodable parameters", replies)); },
                        "invalid" => {
                            let want = json!({"error": "org.varlink.service.InvalidParameter", "parameters": {"parameter": res["p"]}});
                            if !ok || replies != vec![want.clone()] { fail(variant, format!("replies {:?}, spec says {}", replies, want)); }
                        }
                        "descr" => {
                            let n = join(&res["name"]);
                            let text = if n == "org.varlink.service" { SVC_DESCR.to_string() } else { descr_of(&n) };
                            let want = json!({"parameters": {"description": text}});
                            if !ok || replies != vec![want.clone()] { fail(variant, format!("description of {} not returned verbatim: {:?}", n, replies)); }
                        }
                        _ => {}
                    }
                }
            }
        }
    }
    emit(&json!({"summary": true, "cases": cases.len(), "executions": execs, "failures": nfail}));
}
