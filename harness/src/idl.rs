//! IDL family (specs/Idl.tla): `vh idlnames`, `vh idltok` (C11 accept/reject, C12 totality on the same inputs),
//! `vh idlast` (C11 mirror, C10 formatting), `vh idlfuzz` (C12).
use std::convert::TryFrom;
use std::panic::{catch_unwind, AssertUnwindSafe};

use serde_json::{json, Value};
use varlink_parser::{Error as PErr, IDL};

use crate::util::*;

pub enum Verdict {
    Accept,
    RejectParse { line: String, column: usize },
    RejectIdl(String),
    Panic,
}

/// parse with the real parser; a panic is data
pub fn parse_verdict(text: &str) -> Verdict {
    let _wd = crate::conn::watched("IDL::try_from", &[text.as_bytes().to_vec()]);
    let r = catch_unwind(AssertUnwindSafe(|| match IDL::try_from(text) {
        Ok(_) => Verdict::Accept,
        Err(PErr::Parse { line, column }) => Verdict::RejectParse { line, column },
        Err(PErr::Idl(s)) => Verdict::RejectIdl(s),
    }));
    r.unwrap_or(Verdict::Panic)
}

/// C12: diagnostics point into the input and can be rendered
pub fn check_diagnostic(text: &str, v: &Verdict) -> Result<(), String> {
    match v {
        Verdict::Panic => Err("the parser panicked".into()),
        Verdict::RejectParse { line, column } => {
            if !text.split('\n').any(|l| l == line) {
                return Err(format!("reported line {:?} is not a line of the input", line));
            }
            let n = line.chars().count();
            if *column < 1 || *column > n + 1 {
                return Err(format!("reported column {} is outside the reported line (length {})", column, n));
            }
            let e = PErr::Parse { line: line.clone(), column: *column };
            let r = catch_unwind(AssertUnwindSafe(|| format!("{}", e)));
            if r.is_err() {
                return Err("rendering the parse error panicked".into());
            }
            Ok(())
        }
        Verdict::RejectIdl(s) => {
            let e = PErr::Idl(s.clone());
            catch_unwind(AssertUnwindSafe(|| format!("{} {:?}", e, e))).map(|_| ()).map_err(|_| "rendering the error panicked".to_string())
        }
        Verdict::Accept => Ok(()),
    }
}

fn class_char(c: &str, i: usize) -> char {
    match c {
        "l" => ['a', 'z', 'm'][i % 3],
        "U" => ['A', 'Z', 'Q'][i % 3],
        "d" => ['0', '9', '5'][i % 3],
        "-" => '-',
        "." => '.',
        _ => ['_', '*', '/', '\u{e9}', '+'][i % 5],
    }
}

pub fn run_names(_args: &[String]) {
    let cases = read_cases();
    let mut nfail = 0;
    let mut execs = 0;
    let mut skipped = 0;
    for (i, c) in cases.iter().enumerate() {
        let verdict = c["v"].as_str().unwrap();
        if verdict == "dontcare" {
            skipped += 1;
            continue;
        }
        let classes: Vec<&str> = c["s"].as_array().unwrap().iter().map(|x| x.as_str().unwrap()).collect();
        for variant in 0..2 {
            let name: String = classes.iter().enumerate().map(|(k, cl)| class_char(cl, k + variant * 7 + i)).collect();
            if name.contains(' ') && variant == 0 {
                // a blank would end the name token: the remainder becomes a different syntax error, still a reject
            }
            let text = format!("interface {}\nmethod F() -> ()\n", name);
            execs += 1;
            let v = parse_verdict(&text);
            let got = match v { Verdict::Accept => "accept", Verdict::Panic => "panic", _ => "reject" };
            let mut err = None;
            if got != verdict {
                err = Some(format!("interface name {:?}: parser says {}, the name rules say {}", name, got, verdict));
            } else if let Err(d) = check_diagnostic(&text, &v) {
                err = Some(format!("interface name {:?}: {}", name, d));
            } else if got == "accept" {
                let idl = IDL::try_from(text.as_str()).unwrap();
                if idl.name != name {
                    err = Some(format!("parsed interface name {:?} differs from the source {:?}", idl.name, name));
                }
            }
            if let Some(d) = err {
                nfail += 1;
                if nfail <= 40 {
                    emit(&json!({"fail": true, "case": i, "variant": "name", "detail": d, "sig": format!("classes={}", classes.join("")), "input": c, "name": name}));
                }
                break;
            }
        }
    }
    emit(&json!({"summary": true, "cases": cases.len(), "executions": execs, "failures": nfail, "dontcare": skipped}));
}

/// `vh idlwords`: field names / enum elements / member names, character class by character class (MC_IdlWords)
pub fn run_words(_args: &[String]) {
    let cases = read_cases();
    let mut nfail = 0;
    let mut execs = 0;
    // representatives per class, rotated
    let rep = |cl: &str, k: usize| -> char {
        match cl {
            "l" => ['a', 'q', 'z', 'm'][k % 4],
            "U" => ['B', 'Q', 'Z', 'A'][k % 4],
            "d" => ['7', '0', '9'][k % 3],
            "_" => '_',
            _ => ['-', '.', '\u{e9}', '$', '\u{430}'][k % 5],
        }
    };
    for (i, c) in cases.iter().enumerate() {
        let classes: Vec<&str> = c["w"].as_array().unwrap().iter().map(|x| x.as_str().unwrap()).collect();
        let fieldv = c["field"].as_str().unwrap();
        let memberv = c["member"].as_str().unwrap();
        for variant in 0..2 {
            let word: String = classes.iter().enumerate().map(|(k, cl)| rep(cl, k + variant * 3 + i)).collect();
            // the word in every position its rule governs
            let texts: Vec<(&str, &str, String)> = vec![
                ("field", fieldv, format!("interface a.b\nmethod M({}: int) -> ()\n", word)),
                ("field", fieldv, format!("interface a.b\nmethod M() -> ({}: int)\n", word)),
                ("field", fieldv, format!("interface a.b\ntype T (x: int, {}: ?string)\n", word)),
                ("field", fieldv, format!("interface a.b\nerror E ({}: bool)\n", word)),
                ("field", fieldv, format!("interface a.b\ntype T ({}, other)\n", word)),
                ("field", fieldv, format!("interface a.b\ntype T (x: (other, {}))\n", word)),
                ("member", memberv, format!("interface a.b\ntype {} (x: int)\n", word)),
                ("member", memberv, format!("interface a.b\nmethod {}() -> ()\n", word)),
                ("member", memberv, format!("interface a.b\nerror {} ()\n", word)),
                ("member", memberv, format!("interface a.b\ntype T1 (x: int)\nmethod M(a: {}) -> ()\n", word)),
            ];
            for (k, (which, want, text)) in texts.iter().enumerate() {
                // a reference to an undefined type is rejected for another reason: only the lexical rule is judged there
                let want: &str = if k == 9 { if *want == "accept" { "dontcare" } else { "reject" } } else { want };
                if want == "dontcare" {
                    continue;
                }
                execs += 1;
                let v = parse_verdict(text);
                let got = match v { Verdict::Accept => "accept", Verdict::Panic => "panic", _ => "reject" };
                let mut err = None;
                if got != want {
                    err = Some(format!("{} name {:?} in {:?}: parser says {}, the word rules say {}", which, word, text, got, want));
                } else if let Err(d) = check_diagnostic(text, &v) {
                    err = Some(format!("{} name {:?}: {}", which, word, d));
                }
                if let Some(d) = err {
                    nfail += 1;
                    if nfail <= 40 {
                        emit(&json!({"fail": true, "case": i, "variant": format!("{}-position-{}", which, k), "detail": d, "sig": format!("{} classes={}", which, classes.join("")), "input": c, "text": text}));
                    }
                    break;
                }
            }
        }
    }
    emit(&json!({"summary": true, "cases": cases.len(), "executions": execs, "failures": nfail}));
}

/// render a token string; `style` selects blanks / line ends / extra comment lines
pub fn render_tokens(toks: &[&str], style: usize) -> String {
    let sp = [" ", "  ", "\t", " \u{00a0}"][style % 4];
    let nl = ["\n", "\r\n", "\n# a comment line \u{e9}\n", "\n\n", "\r", "\u{2028}", "\n   #c\n"][(style / 4) % 7];
    let mut out = String::new();
    let mut n_name = 0;
    let mut n_fld = 0;
    let mut glue_next = true; // nothing before the first token
    for (k, t) in toks.iter().enumerate() {
        let word: String = match *t {
            "IFACE" => "org.example.t-1".into(),
            "NL" => nl.into(),
            "Name" => {
                n_name += 1;
                format!("N{}x", n_name)
            }
            "fld" => {
                n_fld += 1;
                ["alpha", "b_1", "z9", "type"][n_fld % 4].to_string() + &n_fld.to_string()
            }
            "junk" => "%".into(),
            other => other.into(),
        };
        let is_nl = *t == "NL";
        let glue_prev = *t == "," || is_nl;
        if !(glue_next || glue_prev || k == 0) {
            out.push_str(sp);
        }
        out.push_str(&word);
        glue_next = matches!(*t, "?" | "[]" | "[string]") || is_nl;
    }
    out
}

pub fn run_tokens(args: &[String]) {
    let thorough = args.iter().any(|a| a == "--tier=thorough");
    let cases = read_cases();
    let mut nfail = 0;
    let mut execs = 0;
    let styles: Vec<usize> = if thorough { (0..28).collect() } else { vec![0, 5, 10, 15, 20, 25] };
    for (i, c) in cases.iter().enumerate() {
        let toks: Vec<&str> = c["toks"].as_array().unwrap().iter().map(|x| x.as_str().unwrap()).collect();
        let want = if c["accept"].as_bool().unwrap() { "accept" } else { "reject" };
        for st in &styles {
            let text = render_tokens(&toks, *st + i);
            execs += 1;
            let v = parse_verdict(&text);
            let got = match v { Verdict::Accept => "accept", Verdict::Panic => "panic", _ => "reject" };
            let mut err = None;
            if got != want {
                err = Some(format!("parser says {} for {:?}; the token grammar says {}", got, text, want));
            } else if let Err(d) = check_diagnostic(&text, &v) {
                err = Some(format!("{} (input {:?})", d, text));
            }
            if let Some(d) = err {
                nfail += 1;
                if nfail <= 40 {
                    emit(&json!({"fail": true, "case": i, "variant": format!("style{}", st), "detail": d, "sig": toks.join(" "), "input": c, "text": text}));
                }
                break;
            }
        }
    }
    emit(&json!({"summary": true, "cases": cases.len(), "executions": execs, "failures": nfail}));
}

// ------------------------------------------------------------------------------------------------
// AST rendering / projection (C11 mirror, C10 formatting)

use varlink_parser::{Format, FormatColored, VStruct, VStructOrEnum, VType, VTypeExt};

pub fn type_text(t: &Value) -> String {
    match t["c"].as_str().unwrap() {
        "ref" => t["n"].as_str().unwrap().to_string(),
        "arr" => format!("[]{}", type_text(&t["e"])),
        "dict" => format!("[string]{}", type_text(&t["e"])),
        "opt" => format!("?{}", type_text(&t["e"])),
        "struct" => {
            let fs: Vec<String> = t["f"].as_array().unwrap().iter().map(|f| format!("{}: {}", f["n"].as_str().unwrap(), type_text(&f["t"]))).collect();
            format!("({})", fs.join(", "))
        }
        "enum" => {
            let vs: Vec<&str> = t["v"].as_array().unwrap().iter().map(|x| x.as_str().unwrap()).collect();
            format!("({})", vs.join(", "))
        }
        b => b.to_string(),
    }
}

/// text of a doc block for a doc tag; this exact string is what the parser must expose as `doc`
pub fn doc_text(tag: &str, who: &str) -> String {
    match tag {
        "one" => format!("# doc of {} \u{e9}", who),
        "multi" => format!("# first line of {}\n#\n#   third line, indented \u{1F600}", who),
        "crlf" => format!("# a {}\r\n# b", who),
        "tabcont" => format!("# a {}\n#\tb continued\t.", who),
        "u2028" => format!("# a {}\u{2028}# b", who),
        // vertical tab, form feed and NEL are ordinary comment text (not white space of the grammar): they stay, also at the end
        "ctlend" => format!("# a {}\u{0B}x\n# b\u{0C}\u{85}", who),
        _ => String::new(),
    }
}

pub fn member_name(m: &Value, idx: usize, mode: &str) -> String {
    let n = m["n"].as_str().unwrap();
    if mode == "shapes" { format!("{}{}", n, idx + 1) } else { n.to_string() }
}

/// render an interface definition; `style` chooses legal trivia (blank lines, indentation, line ends, spaces)
pub fn render_ast(ast: &Value, mode: &str, style: usize) -> String {
    let nl = ["\n", "\n", "\r\n", "\n"][style % 4];
    // (the grammar's white space includes U+180E and U+FEFF: indentation with them leaves the documentation untouched)
    let ind = ["", "  ", "\t", "\u{180E}\u{FEFF}"][(style / 4) % 4];
    let gap = ["\n", "\n\n", "\n \n", "\n"][(style / 8) % 4].replace('\n', nl);
    let sp = [" ", "  ", " ", "\t"][(style / 2) % 4];
    let mut out = String::new();
    let name: Vec<&str> = ast["name"].as_array().unwrap().iter().map(|x| x.as_str().unwrap()).collect();
    let d = doc_text(ast["doc"].as_str().unwrap(), "the interface");
    if style % 7 == 3 {
        out.push('\u{FEFF}'); // a byte order mark at the start of the file is white space
    }
    if style % 3 == 1 {
        out.push_str(nl);
    }
    if !d.is_empty() {
        out.push_str(&d);
        out.push_str(nl);
    }
    out.push_str(&format!("interface{}{}", sp, name.join(".")));
    out.push_str(nl);
    for (i, m) in ast["members"].as_array().unwrap().iter().enumerate() {
        out.push_str(&gap);
        let mname = member_name(m, i, mode);
        let d = doc_text(m["doc"].as_str().unwrap(), &mname);
        if !d.is_empty() {
            out.push_str(ind);
            out.push_str(&d);
            out.push_str(nl);
        }
        out.push_str(ind);
        match m["k"].as_str().unwrap() {
            "type" => out.push_str(&format!("type{}{}{}{}", sp, mname, sp, type_text(&m["a"]))),
            "error" => out.push_str(&format!("error{}{}{}{}", sp, mname, sp, type_text(&m["a"]))),
            _ => out.push_str(&format!("method{}{}{}{}->{}{}", sp, mname, type_text(&m["a"]), sp, sp, type_text(&m["b"]))),
        }
        out.push_str(nl);
    }
    if style % 5 == 2 {
        out.push_str("# trailing comment");
        out.push_str(nl);
    }
    out
}

fn proj_type(t: &VTypeExt) -> Value {
    match t {
        VTypeExt::Array(e) => json!({"c": "arr", "e": proj_type(e)}),
        VTypeExt::Dict(e) => json!({"c": "dict", "e": proj_type(e)}),
        VTypeExt::Option(e) => json!({"c": "opt", "e": proj_type(e)}),
        VTypeExt::Plain(p) => match p {
            VType::Bool => json!({"c": "bool"}),
            VType::Int => json!({"c": "int"}),
            VType::Float => json!({"c": "float"}),
            VType::String => json!({"c": "string"}),
            VType::Object => json!({"c": "object"}),
            VType::Typename(n) => json!({"c": "ref", "n": n}),
            VType::Struct(s) => proj_struct(s),
            VType::Enum(e) => json!({"c": "enum", "v": e.elts}),
        },
    }
}

fn proj_struct(s: &VStruct) -> Value {
    json!({"c": "struct", "f": s.elts.iter().map(|a| json!({"n": a.name, "t": proj_type(&a.vtype)})).collect::<Vec<_>>()})
}

/// projection of the parser's structure: name, doc, per-kind ordered member lists
pub fn project(idl: &IDL) -> Value {
    let types: Vec<Value> = idl.typedef_keys.iter().map(|k| {
        let t = &idl.typedefs[k];
        let elt = match &t.elt {
            VStructOrEnum::VStruct(s) => proj_struct(s),
            VStructOrEnum::VEnum(e) => json!({"c": "enum", "v": e.elts}),
        };
        json!({"n": t.name, "doc": t.doc, "a": elt})
    }).collect();
    let methods: Vec<Value> = idl.method_keys.iter().map(|k| {
        let m = &idl.methods[k];
        json!({"n": m.name, "doc": m.doc, "a": proj_struct(&m.input), "b": proj_struct(&m.output)})
    }).collect();
    let errors: Vec<Value> = idl.error_keys.iter().map(|k| {
        let e = &idl.errors[k];
        json!({"n": e.name, "doc": e.doc, "a": proj_struct(&e.parm)})
    }).collect();
    json!({"name": idl.name, "doc": idl.doc, "types": types, "methods": methods, "errors": errors})
}

/// what the spec's AST says the projection must be
pub fn expected_projection(ast: &Value, mode: &str) -> Value {
    let name: Vec<&str> = ast["name"].as_array().unwrap().iter().map(|x| x.as_str().unwrap()).collect();
    let mut types = Vec::new();
    let mut methods = Vec::new();
    let mut errors = Vec::new();
    for (i, m) in ast["members"].as_array().unwrap().iter().enumerate() {
        let mname = member_name(m, i, mode);
        let doc = doc_text(m["doc"].as_str().unwrap(), &mname);
        // an enum typedef with zero... (not generated); a struct typedef "()" stays a struct
        match m["k"].as_str().unwrap() {
            "type" => types.push(json!({"n": mname, "doc": doc, "a": m["a"]})),
            "error" => errors.push(json!({"n": mname, "doc": doc, "a": m["a"]})),
            _ => methods.push(json!({"n": mname, "doc": doc, "a": m["a"], "b": m["b"]})),
        }
    }
    json!({"name": name.join("."), "doc": doc_text(ast["doc"].as_str().unwrap(), "the interface"), "types": types, "methods": methods, "errors": errors})
}

pub fn strip_ansi(s: &str) -> String {
    let mut out = String::new();
    let mut it = s.chars().peekable();
    while let Some(c) = it.next() {
        if c == '\u{1b}' && it.peek() == Some(&'[') {
            it.next();
            for d in it.by_ref() {
                if d.is_ascii_alphabetic() {
                    break;
                }
            }
        } else {
            out.push(c);
        }
    }
    out
}

/// `vh idlast [--format] [--tier=..]`: mirror (C11) and, with --format, the formatting laws (C10)
pub fn run_ast(args: &[String]) {
    let thorough = args.iter().any(|a| a == "--tier=thorough");
    let do_format = args.iter().any(|a| a == "--format");
    colored::control::set_override(true);
    let cases = read_cases();
    let mut nfail = 0usize;
    let mut execs = 0usize;
    let styles: Vec<usize> = if thorough { (0..32).collect() } else { vec![0, 3, 6, 9, 13, 18, 23, 27] };
    let widths: Vec<usize> = {
        let mut w: Vec<usize> = (0..=200).collect();
        w.extend([1000usize, usize::MAX / 2]);
        w
    };
    'cases: for (i, c) in cases.iter().enumerate() {
        let ast = &c["ast"];
        let mode = c["mode"].as_str().unwrap();
        let dups: Vec<&str> = c["dups"].as_array().unwrap().iter().map(|x| x.as_str().unwrap()).collect();
        let want = expected_projection(ast, mode);
        for st in &styles {
            let text = render_ast(ast, mode, *st + i);
            execs += 1;
            let mut fail = |variant: String, d: String| {
                nfail += 1;
                if nfail <= 40 {
                    emit(&json!({"fail": true, "case": i, "variant": variant, "detail": d, "sig": format!("{}#{}", mode, i), "input": c, "text": text}));
                }
            };
            let _wd = crate::conn::watched("IDL::try_from / get_multiline", &[text.as_bytes().to_vec()]);
            let parsed = catch_unwind(AssertUnwindSafe(|| IDL::try_from(text.as_str()).map(|idl| project(&idl))));
            let parsed = match parsed {
                Err(_) => { fail(format!("style{}", st), "the parser panicked".into()); continue 'cases; }
                Ok(p) => p,
            };
            if !dups.is_empty() {
                // every duplicated name is named in the error
                match parsed {
                    Ok(_) => { fail(format!("style{}", st), format!("definition with duplicate member name(s) {:?} was accepted", dups)); continue 'cases; }
                    Err(PErr::Idl(msg)) => {
                        for d in &dups {
                            if !msg.contains(&format!("`{}`", d)) {
                                fail(format!("style{}", st), format!("duplicate name {} is not named in the error: {:?}", d, msg));
                                continue 'cases;
                            }
                        }
                    }
                    Err(e) => { fail(format!("style{}", st), format!("duplicates {:?} reported as a syntax error: {}", dups, e)); continue 'cases; }
                }
                continue;
            }
            let got = match parsed {
                Ok(p) => p,
                Err(e) => { fail(format!("style{}", st), format!("valid definition rejected: {}", e)); continue 'cases; }
            };
            if got != want {
                fail(format!("style{}", st), format!("parsed structure does not mirror the source: got {} expected {}", got, want));
                continue 'cases;
            }
            if !do_format || *st != styles[0] && !thorough && (*st % 2 == 1) {
                continue;
            }
            // C10: for every width
            let idl = IDL::try_from(text.as_str()).unwrap();
            for w in &widths {
                execs += 1;
                let f1 = match catch_unwind(AssertUnwindSafe(|| idl.get_multiline(0, *w))) {
                    Ok(s) => s,
                    Err(_) => { fail(format!("width{}", w), "get_multiline panicked".into()); continue 'cases; }
                };
                let re = match IDL::try_from(f1.as_str()) {
                    Ok(r) => r,
                    Err(e) => { fail(format!("width{}", w), format!("formatted text does not parse: {} -- text {:?}", e, f1)); continue 'cases; }
                };
                let p2 = project(&re);
                if p2 != want {
                    fail(format!("width{}", w), format!("formatting changed the definition: {} vs {} -- text {:?}", p2, want, f1));
                    continue 'cases;
                }
                let f2 = match catch_unwind(AssertUnwindSafe(|| re.get_multiline(0, *w))) {
                    Ok(s) => s,
                    Err(_) => { fail(format!("width{}", w), format!("formatting the formatted text panicked at width {} -- text {:?}", w, f1)); continue 'cases; }
                };
                if f2 != f1 {
                    fail(format!("width{}", w), format!("formatting is not idempotent at width {}: first {:?} second {:?}", w, f1, f2));
                    continue 'cases;
                }
                let col = match catch_unwind(AssertUnwindSafe(|| idl.get_multiline_colored(0, *w))) {
                    Ok(s) => s,
                    Err(_) => { fail(format!("width{}", w), format!("get_multiline_colored panicked at width {}", w)); continue 'cases; }
                };
                if strip_ansi(&col) != f1 {
                    fail(format!("width{}", w), format!("coloured rendering differs from the plain one by more than escape sequences: {:?} vs {:?}", strip_ansi(&col), f1));
                    continue 'cases;
                }
                if *w == 80 {
                    let disp = catch_unwind(AssertUnwindSafe(|| format!("{}", idl))).unwrap_or_else(|_| "<Display panicked>".into());
                    if disp != f1 {
                        fail("display".into(), "Display differs from get_multiline(0, 80)".into());
                        continue 'cases;
                    }
                }
            }
        }
    }
    emit(&json!({"summary": true, "cases": cases.len(), "executions": execs, "failures": nfail}));
}

// ------------------------------------------------------------------------------------------------
// C12: totality and diagnostics

fn random_char(rng: &mut Rng) -> char {
    loop {
        let c = match rng.below(8) {
            0 => rng.below(0x80) as u32,
            1 => 0x80 + rng.below(0x780) as u32,
            2 => 0x800 + rng.below(0xF800) as u32,
            3 => 0x10000 + rng.below(0x100000) as u32,
            4 => [0x0, 0xD, 0x2028, 0x2029, 0x85, 0xA0, 0xFEFF, 0x300, 0x200B, 0x202E][rng.below(10)],
            5 => ['#', '(', ')', ',', ':', '?', '[', ']', '-', '>', '.'][rng.below(11)] as u32,
            _ => 0x20 + rng.below(0x5f) as u32,
        };
        if let Some(ch) = char::from_u32(c) {
            return ch;
        }
    }
}

fn total_check(text: &str, oracle: Option<bool>, label: &str) -> Result<bool, String> {
    let t0 = std::time::Instant::now();
    let v = parse_verdict(text);
    if t0.elapsed() > std::time::Duration::from_secs(2) {
        return Err(format!("[{}] parsing took {:?}", label, t0.elapsed()));
    }
    check_diagnostic(text, &v).map_err(|d| format!("[{}] {} -- input {:?}", label, d, lossy(text.as_bytes())))?;
    let acc = matches!(v, Verdict::Accept);
    if let Some(o) = oracle {
        if o != acc {
            let why = match v { Verdict::RejectParse { line, column } => format!("syntax error at column {} of {:?}", column, line), Verdict::RejectIdl(s) => s, _ => String::new() };
            return Err(format!("[{}] expected {}, parser says {} {} -- input {:?}", label, if o { "accept" } else { "reject" }, if acc { "accept" } else { "reject" }, why, lossy(text.as_bytes())));
        }
    }
    Ok(acc)
}

pub fn run_fuzz(args: &[String]) {
    let thorough = args.iter().any(|a| a == "--tier=thorough");
    let cases = read_cases();
    let mut rng = Rng::new(seed() * 48271 + 11);
    let mut nfail = 0usize;
    let mut execs = 0usize;
    let mut rejected = 0usize;
    let mut distinct: std::collections::HashSet<u64> = Default::default();
    let hash = |s: &str| { use std::hash::{Hash, Hasher}; let mut h = std::collections::hash_map::DefaultHasher::new(); s.hash(&mut h); h.finish() };
    let mut run = |text: &str, oracle: Option<bool>, label: &str, case: usize, nfail: &mut usize, execs: &mut usize, rejected: &mut usize| {
        *execs += 1;
        distinct.insert(hash(text));
        match total_check(text, oracle, label) {
            Ok(acc) => { if !acc { *rejected += 1; } }
            Err(d) => {
                *nfail += 1;
                if *nfail <= 30 {
                    emit(&json!({"fail": true, "case": case, "variant": label, "detail": d, "sig": label, "text": text}));
                }
            }
        }
    };
    for (i, c) in cases.iter().enumerate() {
        let ast = &c["ast"];
        let mode = c["mode"].as_str().unwrap();
        let base = render_ast(ast, mode, i);
        run(&base, Some(true), "valid", i, &mut nfail, &mut execs, &mut rejected);
        // every line-ending convention (the rendered docs may contain their own)
        for (nm, le) in [("CR", "\r"), ("CRLF", "\r\n"), ("U+2028", "\u{2028}"), ("U+2029", "\u{2029}")] {
            let plain = render_ast(ast, mode, (i / 4) * 4); // style with "\n" line ends
            let t = plain.replace("\r\n", "\n").replace('\n', le);
            run(&t, Some(true), &format!("line-ends-{}", nm), i, &mut nfail, &mut execs, &mut rejected);
        }
        // every prefix (character boundaries)
        let idxs: Vec<usize> = base.char_indices().map(|x| x.0).collect();
        let step = if thorough { 1 } else { 3 };
        for k in idxs.iter().step_by(step) {
            run(&base[..*k], None, "prefix", i, &mut nfail, &mut execs, &mut rejected);
        }
        // character-level mutations
        let chars: Vec<char> = base.chars().collect();
        for _ in 0..(if thorough { 300 } else { 40 }) {
            let mut v = chars.clone();
            for _ in 0..(1 + rng.below(3)) {
                let p = rng.below(v.len().max(1));
                match rng.below(4) {
                    0 => { if !v.is_empty() { v[p] = random_char(&mut rng); } }
                    1 => { if !v.is_empty() { v.remove(p); } }
                    2 => { v.insert(p, random_char(&mut rng)); }
                    _ => { if !v.is_empty() { let ch = v[p]; v.insert(p, ch); } }
                }
            }
            let t: String = v.into_iter().collect();
            run(&t, None, "mutation", i, &mut nfail, &mut execs, &mut rejected);
        }
        // arbitrary text inside comments keeps the definition valid (no line terminators inside)
        for _ in 0..(if thorough { 40 } else { 6 }) {
            let junk: String = (0..rng.below(30)).map(|_| random_char(&mut rng)).filter(|c| !matches!(*c, '\n' | '\r' | '\u{2028}' | '\u{2029}')).collect();
            let t2 = format!("#{}\n{}#{}\n", junk, base, junk);
            run(&t2, Some(true), "junk-in-comments", i, &mut nfail, &mut execs, &mut rejected);
        }
    }
    // nesting depth 1..200 (accepted), and beyond
    for depth in (1..=200usize).step_by(if thorough { 1 } else { 7 }).chain([200usize, 400, 1000]) {
        let oracle = if depth <= 200 { Some(true) } else { None };
        let s1 = format!("interface a.b\ntype T (a: {}int{})\n", "(a: ".repeat(depth), ")".repeat(depth));
        run(&s1, oracle, "nest-struct", depth, &mut nfail, &mut execs, &mut rejected);
        let s2 = format!("interface a.b\nmethod M(a: {}int) -> ()\n", "[]".repeat(depth));
        run(&s2, oracle, "nest-array", depth, &mut nfail, &mut execs, &mut rejected);
        let s3 = format!("interface a.b\nerror E (a: {}string)\n", "?[string]".repeat(depth));
        run(&s3, oracle, "nest-opt-dict", depth, &mut nfail, &mut execs, &mut rejected);
        let s4 = format!("interface a.b\ntype T (a: {}(x, y){})\n", "(a: ".repeat(depth), ")".repeat(depth));
        run(&s4, oracle, "nest-enum", depth, &mut nfail, &mut execs, &mut rejected);
        let s5 = format!("interface a.b\ntype T {}\n", "(".repeat(depth));
        run(&s5, Some(false), "unclosed", depth, &mut nfail, &mut execs, &mut rejected);
    }
    // random Unicode strings
    for k in 0..(if thorough { 20000 } else { 2000 }) {
        let n = rng.below(120);
        let s: String = (0..n).map(|_| random_char(&mut rng)).collect();
        let s = if k % 3 == 0 { format!("interface a.b\n{}", s) } else { s };
        run(&s, None, "random-unicode", k, &mut nfail, &mut execs, &mut rejected);
    }
    emit(&json!({"summary": true, "cases": cases.len(), "executions": execs, "failures": nfail, "rejected": rejected, "distinct": distinct.len()}));
}

/// `vh idlcli`: `varlink format -c W FILE` equals get_multiline(0, W) and parses back to the same definition
pub fn run_cli(_args: &[String]) {
    let bin = std::env::var("VERIF_VARLINK_BIN").expect("VERIF_VARLINK_BIN");
    let cases = read_cases();
    let dir = tmpdir("idlcli");
    let mut nfail = 0usize;
    let mut execs = 0usize;
    for (i, c) in cases.iter().enumerate() {
        let ast = &c["ast"];
        let mode = c["mode"].as_str().unwrap();
        let text = render_ast(ast, mode, i * 5);
        let want = expected_projection(ast, mode);
        let path = dir.join(format!("c{}.varlink", i));
        std::fs::write(&path, &text).unwrap();
        for w in [0usize, 20, 40, 57, 80, 120] {
            for colour in ["off", "on"] {
                execs += 1;
                let out = std::process::Command::new(&bin).arg("--color").arg(colour).arg("format").arg("-c").arg(w.to_string()).arg(&path).output();
                let mut fail = |d: String| {
                    nfail += 1;
                    if nfail <= 20 {
                        emit(&json!({"fail": true, "case": i, "variant": format!("cli width{} color={}", w, colour), "detail": d, "sig": format!("{}#{}", mode, i), "input": c, "text": text}));
                    }
                };
                let out = match out { Ok(o) => o, Err(e) => { fail(format!("cannot run {}: {}", bin, e)); continue; } };
                if !out.status.success() {
                    fail(format!("varlink format failed: {}", String::from_utf8_lossy(&out.stderr)));
                    continue;
                }
                let so = strip_ansi(&String::from_utf8_lossy(&out.stdout));
                let idl = IDL::try_from(text.as_str()).unwrap();
                let lib = idl.get_multiline(0, w);
                // the tool prints the formatted text (followed by a line break)
                if so.trim_end_matches('\n') != lib.trim_end_matches('\n') {
                    fail(format!("tool output differs from the library's formatting at width {}: {:?} vs {:?}", w, so, lib));
                    continue;
                }
                match IDL::try_from(so.as_str()) {
                    Ok(re) => if project(&re) != want { fail("tool output parses to a different definition".into()); },
                    Err(e) => fail(format!("tool output does not parse: {}", e)),
                }
            }
        }
    }
    let _ = std::fs::remove_dir_all(&dir);
    emit(&json!({"summary": true, "cases": cases.len(), "executions": execs, "failures": nfail}));
}
