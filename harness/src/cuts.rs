//! `vh cuts` — byte-level segmentations of spec-enumerated request streams (C02).
//! For every ConnRef case: the stream is fed to handle() under many segmentations with the documented
//! tail re-feed; every run must produce the reply bytes of the single-shot run and the spec's Expected,
//! and every returned tail must be exactly the bytes after the last complete message fed so far.
use std::sync::atomic::{AtomicUsize, Ordering};
use std::sync::{Arc, Mutex};

use serde_json::json;

use crate::conn::*;
use crate::connref::{sig_of, Failure};
use crate::svc::{self, SharedLog};
use crate::util::*;

fn chunks_at(stream: &[u8], cuts: &[usize]) -> Vec<Vec<u8>> {
    let mut v = Vec::new();
    let mut from = 0;
    for &c in cuts {
        if c > from && c < stream.len() {
            v.push(stream[from..c].to_vec());
            from = c;
        }
    }
    v.push(stream[from..].to_vec());
    v
}

pub fn run(args: &[String]) {
    let thorough = args.iter().any(|a| a == "--tier=thorough");
    let threads: usize = 8;
    let cases = Arc::new(read_cases());
    let failures: Arc<Mutex<Vec<Failure>>> = Default::default();
    let execs = Arc::new(AtomicUsize::new(0));
    let next = Arc::new(AtomicUsize::new(0));
    let mut hs = Vec::new();
    for t in 0..threads {
        let cases = cases.clone();
        let failures = failures.clone();
        let next = next.clone();
        let execs = execs.clone();
        hs.push(std::thread::spawn(move || {
            let mlog: SharedLog = Default::default();
            let service = svc::standard_service(mlog.clone());
            let mut rng = Rng::new(seed() * 1000 + t as u64);
            loop {
                let idx = next.fetch_add(1, Ordering::SeqCst);
                if idx >= cases.len() {
                    break;
                }
                let case = &cases[idx];
                let reqs = case["reqs"].as_array().unwrap();
                if reqs.is_empty() {
                    continue;
                }
                let end = case["end"].as_str().unwrap();
                let at = case["at"].as_u64().unwrap() as usize;
                // pads: small messages always; big ones for a subset
                let pads: Vec<usize> = if idx % (if thorough { 3 } else { 17 }) == 0 { vec![0, 8150, 70000] } else { vec![0] };
                'pads: for pad in pads {
                    let salt = format!("k{}p{}", idx, pad);
                    let creqs: Vec<CReq> = reqs.iter().enumerate().map(|(i, r)| concretise(r, i + 1, &salt, pad)).collect();
                    let mut stream = Vec::new();
                    for c in &creqs {
                        stream.extend_from_slice(&c.bytes);
                        stream.push(0);
                    }
                    // optionally a truncated trailing message
                    let with_trunc = idx % 2 == 0;
                    let partial: &[u8] = br#"{"method":"org.example.gen.Ping","parameters":{"pi"#;
                    if with_trunc {
                        stream.extend_from_slice(partial);
                    }
                    let n = stream.len();
                    let up_tok = if end == "upgraded" { Some(creqs[at - 1].tok.clone()) } else { None };
                    let single = run_mem(&service, &mlog, &[stream.clone()], up_tok.as_deref());
                    mlog.lock().unwrap().up_rx.clear();
                    mlog.lock().unwrap().up_calls.clear();
                    let exp = Expect { creqs: &creqs, out: &case["out"], end, at, results: &case["results"] };
                    if let Err(d) = check_replies(&exp, &single.out, false) {
                        failures.lock().unwrap().push(Failure { case: idx, variant: format!("single-shot pad{}", pad), detail: d });
                        break 'pads;
                    }
                    // segmentations
                    let mut segs: Vec<Vec<usize>> = Vec::new();
                    if pad == 0 {
                        for c in 1..n {
                            segs.push(vec![c]);
                        }
                        segs.push((1..n).collect()); // one byte at a time
                        if n <= 140 || thorough {
                            // every pair of cuts (bounded)
                            let step = if n <= 140 { 1 } else { (n / 60).max(1) };
                            let mut a = 1;
                            while a < n {
                                let mut b = a + 1;
                                while b < n {
                                    segs.push(vec![a, b]);
                                    b += step;
                                }
                                a += step;
                            }
                        } else {
                            for _ in 0..200 {
                                let a = 1 + rng.below(n - 1);
                                let b = 1 + rng.below(n - 1);
                                segs.push(vec![a.min(b), a.max(b)]);
                            }
                        }
                    } else {
                        // big messages: windows around multiples of 8192 and around every NUL
                        let mut pts: Vec<usize> = Vec::new();
                        let mut k = 8192;
                        while k < n + 50 {
                            for d in 0..80usize {
                                let p = k + d;
                                if p >= 41 && p - 40 < n && p - 40 > 0 {
                                    pts.push(p - 40);
                                }
                            }
                            k += 8192;
                            if !thorough && k > 8192 * 3 && k + 8192 * 2 < n {
                                k = (n / 8192) * 8192; // jump to the last window
                            }
                        }
                        for (i, b) in stream.iter().enumerate() {
                            if *b == 0 {
                                for d in 0..6usize {
                                    if i + d > 2 && i + d - 2 < n && i + d - 2 > 0 {
                                        pts.push(i + d - 2);
                                    }
                                }
                            }
                        }
                        pts.sort();
                        pts.dedup();
                        for p in &pts {
                            segs.push(vec![*p]);
                        }
                        for _ in 0..(if thorough { 60 } else { 10 }) {
                            let a = pts[rng.below(pts.len())];
                            let b = pts[rng.below(pts.len())];
                            segs.push(vec![a.min(b), a.max(b)]);
                        }
                    }
                    // random k-cuts
                    for _ in 0..(if thorough { 40 } else { 8 }) {
                        let k = 3 + rng.below(12);
                        let mut cs: Vec<usize> = (0..k).map(|_| 1 + rng.below(n.max(2) - 1)).collect();
                        cs.sort();
                        cs.dedup();
                        segs.push(cs);
                    }
                    for cuts in segs {
                        let chunks = chunks_at(&stream, &cuts);
                        execs.fetch_add(1, Ordering::Relaxed);
                        let obs = run_mem(&service, &mlog, &chunks, up_tok.as_deref());
                        {
                            let mut l = mlog.lock().unwrap();
                            l.up_rx.clear();
                            l.up_calls.clear();
                            l.script.clear();
                        }
                        let mut err: Option<String> = None;
                        if obs.end == "panic" {
                            err = Some("the service panicked".into());
                        } else if obs.out != single.out {
                            err = Some(format!("reply bytes differ from the single-shot run: chunked {:?} whole {:?}", lossy(&obs.out), lossy(&single.out)));
                        } else if obs.end != single.end {
                            err = Some(format!("connection state differs from the single-shot run: chunked {} whole {}", obs.end, single.end));
                        } else if obs.up_rx != single.up_rx {
                            err = Some(format!("upgraded payload differs from the single-shot run: chunked {} bytes, whole {} bytes", obs.up_rx.len(), single.up_rx.len()));
                        } else {
                            // tails: after invocation k (Ok, not upgraded) tail == bytes after the last NUL fed so far
                            let mut fed = 0usize;
                            for (k, r) in obs.rets.iter().enumerate() {
                                fed += chunks[k].len();
                                if r == &json!("err") || r == &json!("panic") {
                                    break;
                                }
                                if r["upg"] == json!(true) {
                                    break;
                                }
                                let last_nul = stream[..fed].iter().rposition(|b| *b == 0).map(|p| p + 1).unwrap_or(0);
                                let want = &stream[last_nul..fed];
                                let got: Vec<u8> = r["tail"].as_array().unwrap().iter().map(|b| b.as_u64().unwrap() as u8).collect();
                                if got != want {
                                    err = Some(format!("invocation {} returned tail {:?}; the bytes after the last complete message are {:?}", k + 1, lossy(&got), lossy(want)));
                                    break;
                                }
                            }
                        }
                        if let Some(d) = err {
                            failures.lock().unwrap().push(Failure { case: idx, variant: format!("pad{} cuts{:?}", pad, if cuts.len() > 6 { &cuts[..6] } else { &cuts[..] }), detail: d });
                            break 'pads;
                        }
                    }
                }
            }
        }));
    }
    for h in hs {
        let _ = h.join();
    }
    let fs = failures.lock().unwrap();
    for f in fs.iter() {
        emit(&json!({"fail": true, "case": f.case, "variant": f.variant, "detail": f.detail,
                     "sig": sig_of(&cases[f.case]["reqs"]), "input": cases[f.case]}));
    }
    emit(&json!({"summary": true, "cases": cases.len(), "executions": execs.load(Ordering::Relaxed), "failures": fs.len()}));
}
